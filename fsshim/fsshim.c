// fsshim: LD_PRELOAD interposer that records, fails or kills at file-system effects under a
// root directory. Built by `./check --setup` (gcc -shared -fPIC). No change to KyroDB needed.
//
// Environment (all optional; can be changed at run time through control opens, see below):
//   VERIF_FS_ROOT   only paths with this prefix are traced / faulted
//   VERIF_FS_TRACE  trace file (tab separated, one line per effect, written with write(2))
//   VERIF_FS_FAULT  ';'-separated fault entries  op:nth:errno[:short[:repeat]]
//                   op in write,fsync,fdatasync,ftruncate,rename,open,unlink,mkdir ; nth counts
//                   matching calls under the root (1-based); errno numeric (0 with short>=0 means
//                   "short write only"); short = bytes actually written before returning (-1 = none);
//                   repeat = how many consecutive matching calls are affected (default 1)
//   VERIF_FS_KILL_AT  effect sequence number: _exit(137) immediately BEFORE that effect
//   VERIF_FS_KILL_TORN  with KILL_AT on a write: first write this many bytes, then _exit
//
// Control: open("/__verif_ctl__/<cmd>") always fails with ENOENT after executing <cmd>:
//   root=<path> | trace=<path> | fault=<spec> | kill=<n>[,<torn>] | reset | off | mark=<text>
#define _GNU_SOURCE
#include <dlfcn.h>
#include <errno.h>
#include <fcntl.h>
#include <pthread.h>
#include <stdarg.h>
#include <stdio.h>
#include <stdlib.h>
#include <string.h>
#include <sys/stat.h>
#include <sys/syscall.h>
#include <sys/types.h>
#include <sys/uio.h>
#include <unistd.h>

#define MAXFD 65536
#define MAXFAULT 32

static pthread_mutex_t g_mu = PTHREAD_MUTEX_INITIALIZER;
static char g_root[4096];
static size_t g_rootlen = 0;
static int g_trace_fd = -1;
static long g_seq = 0;
static long g_kill_at = -1;
static long g_kill_torn = -1;
static char *g_fdpath[MAXFD];
static int g_inited = 0;

struct fault {
    char op[16];
    long nth;
    int err;
    long shortlen;
    long repeat;
};
static struct fault g_faults[MAXFAULT];
static int g_nfaults = 0;
static long g_opcount[8];
static const char *OPNAMES[8] = {"write", "fsync", "fdatasync", "ftruncate", "rename", "open", "unlink", "mkdir"};

static int (*real_open)(const char *, int, ...);
static int (*real_open64)(const char *, int, ...);
static int (*real_openat)(int, const char *, int, ...);
static int (*real_creat)(const char *, mode_t);
static ssize_t (*real_write)(int, const void *, size_t);
static ssize_t (*real_pwrite64)(int, const void *, size_t, off_t);
static ssize_t (*real_writev)(int, const struct iovec *, int);
static int (*real_fsync)(int);
static int (*real_fdatasync)(int);
static int (*real_ftruncate)(int, off_t);
static int (*real_ftruncate64)(int, off_t);
static int (*real_rename)(const char *, const char *);
static int (*real_renameat)(int, const char *, int, const char *);
static int (*real_renameat2)(int, const char *, int, const char *, unsigned int);
static int (*real_unlink)(const char *);
static int (*real_unlinkat)(int, const char *, int);
static int (*real_mkdir)(const char *, mode_t);
static int (*real_close)(int);

static void parse_faults(const char *spec) {
    g_nfaults = 0;
    memset(g_opcount, 0, sizeof(g_opcount));
    if (!spec || !*spec) return;
    char *dup = strdup(spec);
    char *save = NULL;
    for (char *tok = strtok_r(dup, ";", &save); tok && g_nfaults < MAXFAULT; tok = strtok_r(NULL, ";", &save)) {
        struct fault f;
        memset(&f, 0, sizeof(f));
        f.shortlen = -1;
        f.repeat = 1;
        char op[16] = {0};
        long nth = 0, shortlen = -1, repeat = 1;
        int err = 0;
        int n = sscanf(tok, "%15[^:]:%ld:%d:%ld:%ld", op, &nth, &err, &shortlen, &repeat);
        if (n < 3) continue;
        strncpy(f.op, op, sizeof(f.op) - 1);
        f.nth = nth;
        f.err = err;
        if (n >= 4) f.shortlen = shortlen;
        if (n >= 5) f.repeat = repeat;
        g_faults[g_nfaults++] = f;
    }
    free(dup);
}

static void init_once(void) {
    if (g_inited) return;
    g_inited = 1;
    real_open = dlsym(RTLD_NEXT, "open");
    real_open64 = dlsym(RTLD_NEXT, "open64");
    real_openat = dlsym(RTLD_NEXT, "openat");
    real_creat = dlsym(RTLD_NEXT, "creat");
    real_write = dlsym(RTLD_NEXT, "write");
    real_pwrite64 = dlsym(RTLD_NEXT, "pwrite64");
    real_writev = dlsym(RTLD_NEXT, "writev");
    real_fsync = dlsym(RTLD_NEXT, "fsync");
    real_fdatasync = dlsym(RTLD_NEXT, "fdatasync");
    real_ftruncate = dlsym(RTLD_NEXT, "ftruncate");
    real_ftruncate64 = dlsym(RTLD_NEXT, "ftruncate64");
    real_rename = dlsym(RTLD_NEXT, "rename");
    real_renameat = dlsym(RTLD_NEXT, "renameat");
    real_renameat2 = dlsym(RTLD_NEXT, "renameat2");
    real_unlink = dlsym(RTLD_NEXT, "unlink");
    real_unlinkat = dlsym(RTLD_NEXT, "unlinkat");
    real_mkdir = dlsym(RTLD_NEXT, "mkdir");
    real_close = dlsym(RTLD_NEXT, "close");
    const char *r = getenv("VERIF_FS_ROOT");
    if (r) {
        strncpy(g_root, r, sizeof(g_root) - 1);
        g_rootlen = strlen(g_root);
    }
    const char *t = getenv("VERIF_FS_TRACE");
    if (t && *t) g_trace_fd = real_open(t, O_WRONLY | O_CREAT | O_APPEND | O_CLOEXEC, 0644);
    parse_faults(getenv("VERIF_FS_FAULT"));
    const char *k = getenv("VERIF_FS_KILL_AT");
    if (k && *k) g_kill_at = atol(k);
    const char *kt = getenv("VERIF_FS_KILL_TORN");
    if (kt && *kt) g_kill_torn = atol(kt);
}

__attribute__((constructor)) static void ctor(void) { init_once(); }

static int under_root(const char *p) {
    return g_rootlen > 0 && p && strncmp(p, g_root, g_rootlen) == 0;
}

static void emit(const char *op, long res, int err, const char *p1, const char *p2, long off, long len, long flags,
                 const unsigned char *data, size_t dlen) {
    if (g_trace_fd < 0) return;
    size_t cap = 256 + (p1 ? strlen(p1) : 0) + (p2 ? strlen(p2) : 0) + dlen * 2;
    char *buf = malloc(cap);
    if (!buf) return;
    int n = snprintf(buf, cap, "%ld\t%s\t%ld\t%d\t%s\t%s\t%ld\t%ld\t%ld\t", g_seq, op, res, err, p1 ? p1 : "", p2 ? p2 : "",
                     off, len, flags);
    static const char hexd[] = "0123456789abcdef";
    for (size_t i = 0; i < dlen; i++) {
        buf[n++] = hexd[data[i] >> 4];
        buf[n++] = hexd[data[i] & 15];
    }
    buf[n++] = '\n';
    size_t done = 0;
    while (done < (size_t)n) {
        ssize_t w = real_write(g_trace_fd, buf + done, n - done);
        if (w <= 0) break;
        done += w;
    }
    free(buf);
}

// returns the matching fault (and consumes one repeat) for this op, or NULL
static struct fault *match_fault(int opidx) {
    g_opcount[opidx]++;
    for (int i = 0; i < g_nfaults; i++) {
        struct fault *f = &g_faults[i];
        if (strcmp(f->op, OPNAMES[opidx]) != 0) continue;
        if (g_opcount[opidx] >= f->nth && g_opcount[opidx] < f->nth + f->repeat) return f;
    }
    return NULL;
}

static void maybe_kill(int is_write, int fd, const void *buf, size_t count) {
    if (g_kill_at >= 0 && g_seq == g_kill_at) {
        if (is_write && g_kill_torn > 0) {
            size_t n = (size_t)g_kill_torn < count ? (size_t)g_kill_torn : count;
            real_write(fd, buf, n);
        }
        emit("KILL", 0, 0, "", "", 0, 0, 0, NULL, 0);
        _exit(137);
    }
}

static int handle_ctl(const char *path) {
    const char *pfx = "/__verif_ctl__/";
    size_t pl = strlen(pfx);
    if (strncmp(path, pfx, pl) != 0) return 0;
    const char *cmd = path + pl;
    pthread_mutex_lock(&g_mu);
    if (strncmp(cmd, "root=", 5) == 0) {
        strncpy(g_root, cmd + 5, sizeof(g_root) - 1);
        g_root[sizeof(g_root) - 1] = 0;
        g_rootlen = strlen(g_root);
    } else if (strncmp(cmd, "trace=", 6) == 0) {
        if (g_trace_fd >= 0) real_close(g_trace_fd);
        g_trace_fd = real_open(cmd + 6, O_WRONLY | O_CREAT | O_TRUNC | O_CLOEXEC, 0644);
        g_seq = 0;
    } else if (strncmp(cmd, "fault=", 6) == 0) {
        parse_faults(cmd + 6);
    } else if (strncmp(cmd, "kill=", 5) == 0) {
        long a = -1, b = -1;
        sscanf(cmd + 5, "%ld,%ld", &a, &b);
        g_kill_at = a;
        g_kill_torn = b;
    } else if (strcmp(cmd, "reset") == 0) {
        g_seq = 0;
        memset(g_opcount, 0, sizeof(g_opcount));
        g_nfaults = 0;
        g_kill_at = -1;
        g_kill_torn = -1;
    } else if (strcmp(cmd, "off") == 0) {
        if (g_trace_fd >= 0) real_close(g_trace_fd);
        g_trace_fd = -1;
        g_rootlen = 0;
        g_nfaults = 0;
        g_kill_at = -1;
    } else if (strncmp(cmd, "mark=", 5) == 0) {
        emit("MARK", 0, 0, cmd + 5, "", 0, 0, 0, NULL, 0);
    }
    pthread_mutex_unlock(&g_mu);
    return 1;
}

static void remember_fd(int fd, const char *path) {
    if (fd >= 0 && fd < MAXFD) {
        free(g_fdpath[fd]);
        g_fdpath[fd] = strdup(path);
    }
}

static int do_open(int which, int dirfd, const char *path, int flags, mode_t mode) {
    init_once();
    if (path && handle_ctl(path)) {
        errno = ENOENT;
        return -1;
    }
    int traced = under_root(path) && (which != 2 || dirfd == AT_FDCWD || path[0] == '/');
    if (!traced) {
        if (which == 0) return real_open(path, flags, mode);
        if (which == 1) return real_open64(path, flags, mode);
        return real_openat(dirfd, path, flags, mode);
    }
    pthread_mutex_lock(&g_mu);
    int mutating = (flags & (O_CREAT | O_TRUNC)) != 0;
    struct stat st;
    int existed = (stat(path, &st) == 0);
    int fd;
    if (mutating) {
        g_seq++;
        maybe_kill(0, -1, NULL, 0);
        struct fault *f = match_fault(5);
        if (f && f->err) {
            emit("open", -1, f->err, path, "INJ", 0, 0, flags, NULL, 0);
            pthread_mutex_unlock(&g_mu);
            errno = f->err;
            return -1;
        }
    }
    if (which == 0) fd = real_open(path, flags, mode);
    else if (which == 1) fd = real_open64(path, flags, mode);
    else fd = real_openat(dirfd, path, flags, mode);
    int e = errno;
    if (fd >= 0) remember_fd(fd, path);
    if (mutating) emit("open", fd >= 0 ? 0 : -1, fd >= 0 ? 0 : e, path, existed ? "EXISTED" : "NEW", 0, 0, flags, NULL, 0);
    pthread_mutex_unlock(&g_mu);
    errno = e;
    return fd;
}

int open(const char *path, int flags, ...) {
    mode_t mode = 0;
    if (flags & (O_CREAT | O_TMPFILE)) {
        va_list ap;
        va_start(ap, flags);
        mode = va_arg(ap, mode_t);
        va_end(ap);
    }
    return do_open(0, AT_FDCWD, path, flags, mode);
}
int open64(const char *path, int flags, ...) {
    mode_t mode = 0;
    if (flags & (O_CREAT | O_TMPFILE)) {
        va_list ap;
        va_start(ap, flags);
        mode = va_arg(ap, mode_t);
        va_end(ap);
    }
    return do_open(1, AT_FDCWD, path, flags, mode);
}
int openat(int dirfd, const char *path, int flags, ...) {
    mode_t mode = 0;
    if (flags & (O_CREAT | O_TMPFILE)) {
        va_list ap;
        va_start(ap, flags);
        mode = va_arg(ap, mode_t);
        va_end(ap);
    }
    return do_open(2, dirfd, path, flags, mode);
}
int openat64(int dirfd, const char *path, int flags, ...) {
    mode_t mode = 0;
    if (flags & (O_CREAT | O_TMPFILE)) {
        va_list ap;
        va_start(ap, flags);
        mode = va_arg(ap, mode_t);
        va_end(ap);
    }
    return do_open(2, dirfd, path, flags, mode);
}
int creat(const char *path, mode_t mode) { return do_open(0, AT_FDCWD, path, O_CREAT | O_WRONLY | O_TRUNC, mode); }
int creat64(const char *path, mode_t mode) { return do_open(1, AT_FDCWD, path, O_CREAT | O_WRONLY | O_TRUNC, mode); }

static const char *fd_path(int fd) {
    if (fd >= 0 && fd < MAXFD && g_fdpath[fd] && under_root(g_fdpath[fd])) return g_fdpath[fd];
    return NULL;
}

ssize_t write(int fd, const void *buf, size_t count) {
    init_once();
    const char *p = fd_path(fd);
    if (!p || fd == g_trace_fd) return real_write(fd, buf, count);
    pthread_mutex_lock(&g_mu);
    g_seq++;
    maybe_kill(1, fd, buf, count);
    struct fault *f = match_fault(0);
    ssize_t r;
    int e = 0;
    int injected = 0;
    if (f) {
        injected = 1;
        if (f->shortlen >= 0) {
            size_t n = (size_t)f->shortlen < count ? (size_t)f->shortlen : count;
            r = n > 0 ? real_write(fd, buf, n) : 0;
            if (f->err) {
                // partial data hits the file, then the call reports failure
                long off = (long)lseek(fd, 0, SEEK_CUR) - (r > 0 ? r : 0);
                emit("write", r, f->err, p, "INJ-PARTIAL-ERR", off, r > 0 ? r : 0, 0, buf, r > 0 ? r : 0);
                pthread_mutex_unlock(&g_mu);
                errno = f->err;
                return -1;
            }
        } else {
            emit("write", -1, f->err, p, "INJ", 0, 0, 0, NULL, 0);
            pthread_mutex_unlock(&g_mu);
            errno = f->err;
            return -1;
        }
    } else {
        r = real_write(fd, buf, count);
        e = errno;
    }
    long off = r > 0 ? (long)lseek(fd, 0, SEEK_CUR) - r : 0;
    emit("write", r, r < 0 ? e : 0, p, injected ? "INJ-SHORT" : "", off, r > 0 ? r : 0, 0, buf, r > 0 ? r : 0);
    pthread_mutex_unlock(&g_mu);
    errno = e;
    return r;
}

ssize_t pwrite64(int fd, const void *buf, size_t count, off_t offset) {
    init_once();
    const char *p = fd_path(fd);
    if (!p) return real_pwrite64(fd, buf, count, offset);
    pthread_mutex_lock(&g_mu);
    g_seq++;
    maybe_kill(0, fd, buf, count);
    struct fault *f = match_fault(0);
    if (f && f->err) {
        emit("write", -1, f->err, p, "INJ", 0, 0, 0, NULL, 0);
        pthread_mutex_unlock(&g_mu);
        errno = f->err;
        return -1;
    }
    ssize_t r = real_pwrite64(fd, buf, count, offset);
    int e = errno;
    emit("write", r, r < 0 ? e : 0, p, "", (long)offset, r > 0 ? r : 0, 0, buf, r > 0 ? r : 0);
    pthread_mutex_unlock(&g_mu);
    errno = e;
    return r;
}
ssize_t pwrite(int fd, const void *buf, size_t count, off_t offset) { return pwrite64(fd, buf, count, offset); }

ssize_t writev(int fd, const struct iovec *iov, int iovcnt) {
    init_once();
    const char *p = fd_path(fd);
    if (!p) return real_writev(fd, iov, iovcnt);
    // serialise as individual writes so that the trace carries the bytes
    ssize_t total = 0;
    for (int i = 0; i < iovcnt; i++) {
        if (iov[i].iov_len == 0) continue;
        ssize_t r = write(fd, iov[i].iov_base, iov[i].iov_len);
        if (r < 0) return total > 0 ? total : -1;
        total += r;
        if ((size_t)r < iov[i].iov_len) break;
    }
    return total;
}

static int do_sync(int which, int fd) {
    init_once();
    const char *p = fd_path(fd);
    if (!p) return which == 0 ? real_fsync(fd) : real_fdatasync(fd);
    pthread_mutex_lock(&g_mu);
    g_seq++;
    maybe_kill(0, -1, NULL, 0);
    struct fault *f = match_fault(which == 0 ? 1 : 2);
    if (f && f->err) {
        emit(which == 0 ? "fsync" : "fdatasync", -1, f->err, p, "INJ", 0, 0, 0, NULL, 0);
        pthread_mutex_unlock(&g_mu);
        errno = f->err;
        return -1;
    }
    int r = which == 0 ? real_fsync(fd) : real_fdatasync(fd);
    int e = errno;
    emit(which == 0 ? "fsync" : "fdatasync", r, r < 0 ? e : 0, p, "", 0, 0, 0, NULL, 0);
    pthread_mutex_unlock(&g_mu);
    errno = e;
    return r;
}
int fsync(int fd) { return do_sync(0, fd); }
int fdatasync(int fd) { return do_sync(1, fd); }

static int do_truncate(int which, int fd, off_t len) {
    init_once();
    const char *p = fd_path(fd);
    if (!p) return which == 0 ? real_ftruncate(fd, len) : real_ftruncate64(fd, len);
    pthread_mutex_lock(&g_mu);
    g_seq++;
    maybe_kill(0, -1, NULL, 0);
    struct fault *f = match_fault(3);
    if (f && f->err) {
        emit("ftruncate", -1, f->err, p, "INJ", 0, (long)len, 0, NULL, 0);
        pthread_mutex_unlock(&g_mu);
        errno = f->err;
        return -1;
    }
    int r = which == 0 ? real_ftruncate(fd, len) : real_ftruncate64(fd, len);
    int e = errno;
    emit("ftruncate", r, r < 0 ? e : 0, p, "", 0, (long)len, 0, NULL, 0);
    pthread_mutex_unlock(&g_mu);
    errno = e;
    return r;
}
int ftruncate(int fd, off_t len) { return do_truncate(0, fd, len); }
int ftruncate64(int fd, off_t len) { return do_truncate(1, fd, len); }

static int do_rename(const char *a, const char *b) {
    init_once();
    if (!under_root(a) && !under_root(b)) return real_rename(a, b);
    pthread_mutex_lock(&g_mu);
    g_seq++;
    maybe_kill(0, -1, NULL, 0);
    struct fault *f = match_fault(4);
    if (f && f->err) {
        emit("rename", -1, f->err, a, b, 0, 0, -1, NULL, 0);
        pthread_mutex_unlock(&g_mu);
        errno = f->err;
        return -1;
    }
    int r = real_rename(a, b);
    int e = errno;
    emit("rename", r, r < 0 ? e : 0, a, b, 0, 0, 0, NULL, 0);
    pthread_mutex_unlock(&g_mu);
    errno = e;
    return r;
}
int rename(const char *a, const char *b) { return do_rename(a, b); }
int renameat(int ad, const char *a, int bd, const char *b) {
    init_once();
    if ((ad == AT_FDCWD || a[0] == '/') && (bd == AT_FDCWD || b[0] == '/')) return do_rename(a, b);
    return real_renameat(ad, a, bd, b);
}
int renameat2(int ad, const char *a, int bd, const char *b, unsigned int fl) {
    init_once();
    if (fl == 0 && (ad == AT_FDCWD || a[0] == '/') && (bd == AT_FDCWD || b[0] == '/')) return do_rename(a, b);
    return real_renameat2(ad, a, bd, b, fl);
}

static int do_unlink(const char *p) {
    init_once();
    if (!under_root(p)) return real_unlink(p);
    pthread_mutex_lock(&g_mu);
    g_seq++;
    maybe_kill(0, -1, NULL, 0);
    struct fault *f = match_fault(6);
    if (f && f->err) {
        emit("unlink", -1, f->err, p, "INJ", 0, 0, 0, NULL, 0);
        pthread_mutex_unlock(&g_mu);
        errno = f->err;
        return -1;
    }
    int r = real_unlink(p);
    int e = errno;
    emit("unlink", r, r < 0 ? e : 0, p, "", 0, 0, 0, NULL, 0);
    pthread_mutex_unlock(&g_mu);
    errno = e;
    return r;
}
int unlink(const char *p) { return do_unlink(p); }
int unlinkat(int dirfd, const char *p, int flags) {
    init_once();
    if (flags == 0 && (dirfd == AT_FDCWD || p[0] == '/')) return do_unlink(p);
    return real_unlinkat(dirfd, p, flags);
}

int mkdir(const char *p, mode_t mode) {
    init_once();
    if (!under_root(p)) return real_mkdir(p, mode);
    pthread_mutex_lock(&g_mu);
    g_seq++;
    maybe_kill(0, -1, NULL, 0);
    struct fault *f = match_fault(7);
    if (f && f->err) {
        emit("mkdir", -1, f->err, p, "INJ", 0, 0, 0, NULL, 0);
        pthread_mutex_unlock(&g_mu);
        errno = f->err;
        return -1;
    }
    int r = real_mkdir(p, mode);
    int e = errno;
    emit("mkdir", r, r < 0 ? e : 0, p, "", 0, 0, 0, NULL, 0);
    pthread_mutex_unlock(&g_mu);
    errno = e;
    return r;
}

int close(int fd) {
    init_once();
    if (fd >= 0 && fd < MAXFD && g_fdpath[fd]) {
        pthread_mutex_lock(&g_mu);
        free(g_fdpath[fd]);
        g_fdpath[fd] = NULL;
        pthread_mutex_unlock(&g_mu);
    }
    return real_close(fd);
}
