//! C01 acknowledged writes survive a crash at any instant and restart always succeeds.
//!
//! The leg process runs under LD_PRELOAD=fsshim.so. Per case: one traced run of a seeded history
//! (BEGIN/ACK marks in the same total order as the effects), then EVERY crash point between two
//! consecutive FS effects (+ torn prefixes of each write) is materialised under the kill model and,
//! when the fsync policy promises it, under the power-loss variants; the real strict recovery runs
//! on each state and the result is compared bit-exactly with the two allowed models. For sampled
//! states the recovery itself is traced and crashed at every one of its own effects.

use crate::fstrace::*;
use crate::model::*;
use crate::util::*;
use kyrodb_engine::persistence::FsyncPolicy;
use serde_json::{json, Value};
use std::collections::BTreeSet;

pub struct Case {
    pub idx: usize,
    pub cfg: EngCfg,
    pub gen: GenCfg,
    pub len: usize,
    pub seed: u64,
}

pub fn make_case(seed: u64, idx: usize, thorough: bool) -> Case {
    let mut rng = Rng::derive(seed, idx as u64, 0xC01);
    let metric = metric_from(idx);
    let dim = [2usize, 3, 4][rng.usize_below(3)];
    let capacity = [4usize, 8, 10_000][(idx / 3) % 3];
    let cfg = EngCfg {
        dim,
        metric,
        capacity,
        snapshot_interval: [1usize, 2, 3, 5, 1000][(idx / 2) % 5],
        max_wal: [64u64, 160, 512, 1 << 20][idx % 4],
        fsync: match idx % 5 {
            0 | 1 => FsyncPolicy::Always,
            2 => FsyncPolicy::Periodic(0),
            3 => FsyncPolicy::Never,
            _ => FsyncPolicy::Periodic(50),
        },
        tiered: idx % 7 == 6,
        hot_soft: 2,
        hot_hard: 3,
    };
    let gen = GenCfg {
        n_ids: if capacity == 4 { 4 } else { rng.range(3, 8) },
        dim,
        metric,
        p_snapshot: 0.08,
        p_restart: 0.05,
        p_flush: if cfg.tiered { 0.05 } else { 0.0 },
    };
    Case {
        idx,
        cfg,
        gen,
        len: if thorough { rng.range(25, 60) as usize } else { rng.range(10, 26) as usize },
        seed: rng.next_u64(),
    }
}

fn power_loss_in_scope(f: FsyncPolicy) -> bool {
    matches!(f, FsyncPolicy::Always | FsyncPolicy::Periodic(0))
}

pub fn run(args: &Args) -> Out {
    if args.get("leg") == Some("server-periodic") {
        let mut out = Out::new("C01", "server-periodic");
        crate::c01s::run(args, &mut out);
        return out;
    }
    let mut out = Out::new("C01", "crash-points");
    if !shim_loaded() {
        out.note("fsshim not preloaded: leg cannot observe file-system effects");
        return out;
    }
    if let Some(p) = &args.replay {
        let v: Value = serde_json::from_str(&std::fs::read_to_string(p).expect("replay")).expect("json");
        let r = &v["replay"];
        run_case(r["seed"].as_u64().unwrap_or(1), r["case"].as_u64().unwrap_or(0) as usize, r["thorough"].as_bool().unwrap_or(false), &mut out);
        return out;
    }
    let n = args.n(256, 2560);
    for idx in 0..n {
        if args.mine(idx) {
            run_case(args.seed, idx, args.thorough, &mut out);
        }
    }
    out
}

struct Traced {
    recs: Vec<Rec>,
    /// model after op k has been applied (states[0] = empty, states[k+1] = after op k)
    states: Vec<Model>,
    ops: Vec<Op>,
}

/// run the history with tracing on; returns None after reporting a violation
fn traced_run(case: &Case, dir: &std::path::Path, trace: &std::path::Path, out: &mut Out, replay: &Value) -> Option<Traced> {
    let mut rng = Rng::new(case.seed);
    shim_ctl("reset");
    shim_ctl(&format!("root={}", dir.display()));
    shim_ctl(&format!("trace={}", trace.display()));
    let mut states = vec![Model::default()];
    let mut ops = Vec::new();
    let mut model = Model::default();
    shim_mark("B:init");
    let mut eng = match Eng::create(&case.cfg, dir) {
        Ok(e) => e,
        Err(e) => {
            shim_ctl("off");
            out.violation("create-failed", format!("{:#}", e), replay.clone());
            return None;
        }
    };
    shim_mark("A:init");
    for k in 0..case.len {
        let op = gen_op(&mut rng, &case.gen, &model.live());
        shim_mark(&format!("B:{}", k));
        let ok = match &op {
            Op::Insert { id, vec, meta } => match eng.insert(*id, vec.clone(), meta) {
                Ok(()) => {
                    if let Some(stored) = eng.cold().fetch_document(*id) {
                        model.apply_insert(*id, bits(&stored), meta.clone());
                    }
                    true
                }
                Err(_) => false,
            },
            Op::Delete { id } => match eng.delete(*id) {
                Ok(_) => {
                    model.apply_delete(*id);
                    true
                }
                Err(_) => false,
            },
            Op::BatchDelete { ids } => match eng.batch_delete(ids) {
                Ok(_) => {
                    for id in ids {
                        model.apply_delete(*id);
                    }
                    true
                }
                Err(_) => false,
            },
            Op::UpdateMeta { id, meta, merge } => match eng.update_metadata(*id, meta, *merge) {
                Ok(true) => {
                    model.apply_update(*id, meta, *merge);
                    true
                }
                Ok(false) => true,
                Err(_) => false,
            },
            Op::Snapshot => eng.snapshot().is_ok(),
            Op::Flush => eng.flush().is_ok(),
            Op::Restart => {
                drop(eng);
                match Eng::recover(&case.cfg, dir) {
                    Ok(e) => {
                        eng = e;
                        true
                    }
                    Err(e) => {
                        shim_ctl("off");
                        out.violation("clean-restart-failed", format!("op {}: {:#}", k, e), replay.clone());
                        return None;
                    }
                }
            }
        };
        shim_mark(&format!("A:{}:{}", k, if ok { "ok" } else { "err" }));
        ops.push(op);
        states.push(model.clone());
    }
    // the live collection must be the model (otherwise the allowed sets below are meaningless)
    let universe: Vec<u64> = (0..case.gen.n_ids).collect();
    let live = census_backend(eng.cold(), &universe);
    drop(eng);
    shim_ctl("off");
    let d = diff_models(&model, &live);
    if !d.is_empty() {
        out.violation("live-mismatch", format!("live collection differs from model at the end of the traced run: {:?}", d), replay.clone());
        return None;
    }
    let recs = match parse_trace(trace) {
        Ok(r) => r,
        Err(e) => {
            out.inconclusive(format!("trace unreadable: {}", e));
            return None;
        }
    };
    Some(Traced { recs, states, ops })
}

fn desc_effect(r: Option<&Rec>) -> String {
    match r {
        None => "none".to_string(),
        Some(r) => format!("{}:{}", r.op, file_class(&r.p1)),
    }
}

/// recover a materialised state and compare with the allowed models; Err(sig-part, detail)
fn recover_and_judge(
    case: &Case,
    dir: &std::path::Path,
    allowed: &[&Model],
    inflight_op: Option<&Op>,
    universe: &[u64],
) -> Result<usize, (String, String)> {
    if !dir.join("MANIFEST").exists() {
        // the server's start-up policy: no MANIFEST => fresh empty store; acceptable only if an
        // allowed model is the empty collection
        return if allowed.iter().any(|m| m.docs.is_empty()) {
            Ok(0)
        } else {
            Err(("no-manifest-after-acks".into(), "crash state has no MANIFEST although acknowledged documents exist (start-up would create an empty store)".into()))
        };
    }
    match recover_backend(&case.cfg, dir) {
        Err(e) => Err(("recovery-failed".into(), format!("strict recovery failed: {}", format!("{:#}", e).chars().take(300).collect::<String>()))),
        Ok(b) => {
            let got = census_backend(&b, universe);
            for (i, m) in allowed.iter().enumerate() {
                if diff_models(m, &got).is_empty() {
                    return Ok(i);
                }
            }
            let d: Vec<Vec<String>> = allowed.iter().map(|m| diff_models(m, &got)).collect();
            // classification: a batch delete in flight of which a strict, non-empty subset was applied
            if let Some(Op::BatchDelete { ids }) = inflight_op {
                let base = allowed[0];
                let batch: BTreeSet<u64> = ids.iter().copied().filter(|i| base.docs.contains_key(i)).collect();
                let missing: BTreeSet<u64> = base.docs.keys().copied().filter(|k| !got.docs.contains_key(k)).collect();
                let rest_equal = got.docs.iter().all(|(k, v)| base.docs.get(k) == Some(v));
                if rest_equal && !missing.is_empty() && missing.is_subset(&batch) && missing.len() < batch.len() {
                    return Err((
                        "partial-batch-delete-recovered".into(),
                        format!("a crash inside a batch delete of {:?} recovers with only {:?} deleted (neither none nor all)", batch, missing),
                    ));
                }
            }
            Err(("recovered-differs".into(), format!("recovered collection matches neither allowed model; diffs vs acked / acked+inflight: {:?}", d)))
        }
    }
}

fn run_case(seed: u64, idx: usize, thorough: bool, out: &mut Out) {
    let case = make_case(seed, idx, thorough);
    let scratch = Scratch::new("c01");
    let dir = scratch.sub("data");
    let trace = scratch.sub("trace.tsv");
    let replay = json!({"check":"C01","seed":seed,"case":idx,"thorough":thorough,"cfg":case.cfg.to_json()});
    let Some(t) = traced_run(&case, &dir, &trace, out, &replay) else { return };
    let universe: Vec<u64> = (0..case.gen.n_ids).collect();
    let root = dir.to_string_lossy().to_string();

    // replayer soundness: full replay == the real directory
    let mut full = FsModel::new(&root);
    for r in &t.recs {
        full.apply(r, None);
    }
    if let Err(e) = dir_equals(&full, &dir) {
        out.inconclusive(format!("replayer disagrees with the real directory (case {}): {}", idx, e.chars().take(200).collect::<String>()));
        return;
    }
    out.count("traces_validated_against_real_dir", 1);

    let pl = power_loss_in_scope(case.cfg.fsync);
    let mut fs = FsModel::new(&root);
    let mut acked = 0usize; // number of ops acked so far (index into states)
    let mut inflight: Option<usize> = None;
    let mut init_done = false;
    let crash_dir = scratch.sub("crash");
    let effects: Vec<usize> = t.recs.iter().enumerate().filter(|(_, r)| !r.is_mark()).map(|(i, _)| i).collect();
    out.count("fs_effects", effects.len() as u64);
    let mut crash_states = 0u64;
    let mut second_level = 0u64;
    let mut last_effect: Option<&Rec> = None;
    let mut sampled_rng = Rng::derive(seed, idx as u64, 0x2C01);
    let mut viol_count = 0;

    // iterate over the trace; a crash point sits before every effect record (and at the end)
    let nrec = t.recs.len();
    for i in 0..=nrec {
        let next: Option<&Rec> = t.recs.get(i);
        if let Some(r) = next {
            if r.is_mark() {
                let m = r.p1.as_str();
                if m == "A:init" {
                    init_done = true;
                } else if let Some(rest) = m.strip_prefix("B:") {
                    if let Ok(k) = rest.parse::<usize>() {
                        inflight = Some(k);
                    }
                } else if let Some(rest) = m.strip_prefix("A:") {
                    if let Some(k) = rest.split(':').next().and_then(|x| x.parse::<usize>().ok()) {
                        acked = k + 1;
                        inflight = None;
                    }
                }
                continue;
            }
        }
        // ---- crash point: all records before i applied, effect i (if any) not
        let s_acked = &t.states[acked];
        let s_next = match inflight {
            Some(k) => &t.states[k + 1],
            None => s_acked,
        };
        let allowed: Vec<&Model> = vec![s_acked, s_next];
        let inflight_kind = match inflight {
            Some(k) => t.ops[k].kind(),
            None if !init_done => "init",
            None => "none",
        };
        let mut variants: Vec<(Loss, Option<usize>)> = vec![(Loss::Kill, None)];
        if pl && fs.volatile_items() > 0 {
            variants.push((Loss::AllLost, None));
            variants.push((Loss::DirLost, None));
            variants.push((Loss::DataLost, None));
            for r in 0..(if thorough { 6 } else { 2 }) {
                variants.push((Loss::Mixed(sampled_rng.next_u64() ^ r), None));
            }
        }
        // torn prefixes of the next write
        if let Some(r) = next {
            if r.op == "write" && r.res > 0 && r.data.len() > 1 {
                let l = r.data.len();
                let mut cuts: BTreeSet<usize> = [1usize, 4, l / 2, l - 1].into_iter().filter(|c| *c > 0 && *c < l).collect();
                if thorough {
                    cuts.insert(8.min(l - 1));
                    cuts.insert(l - 4.min(l - 1));
                }
                for c in cuts {
                    variants.push((Loss::Kill, Some(c)));
                }
            }
        }
        for (loss, torn) in variants {
            let state = if let (Some(c), Some(r)) = (torn, next) {
                let mut f2 = fs.clone();
                f2.apply(r, Some(c));
                f2
            } else {
                fs.clone()
            };
            if state.materialise(loss, &crash_dir).is_err() {
                out.inconclusive("cannot materialise crash state");
                continue;
            }
            crash_states += 1;
            out.distinct_hash(hash64(&(idx, i, format!("{:?}{:?}", loss, torn))));
            let verdict = recover_and_judge(&case, &crash_dir, &allowed, inflight.map(|k| &t.ops[k]), &universe);
            if let Err((what, detail)) = &verdict {
                let loss_name = match loss {
                    Loss::Mixed(_) => "Mixed".to_string(),
                    l => format!("{:?}", l),
                };
                let sig = if what == "partial-batch-delete-recovered" {
                    what.clone()
                } else {
                    format!(
                        "{}|inflight={}|after={}|before={}{}|loss={}",
                        what,
                        inflight_kind,
                        desc_effect(last_effect),
                        desc_effect(next),
                        if torn.is_some() { "(torn)" } else { "" },
                        loss_name
                    )
                };
                viol_count += 1;
                out.violation(
                    sig,
                    format!(
                        "case {} crash point before record {} ({}), after {} acknowledged op(s), in flight: {:?}: {}",
                        idx,
                        i,
                        next.map(|r| r.short()).unwrap_or_else(|| "end".into()),
                        acked,
                        inflight.map(|k| t.ops[k].to_json().to_string().chars().take(120).collect::<String>()),
                        detail
                    ),
                    json!({"check":"C01","seed":seed,"case":idx,"thorough":thorough,"cfg":case.cfg.to_json(),"crash_before_record":i,"loss":format!("{:?}",loss),"torn":torn,
                           "trace_tail": t.recs[i.saturating_sub(8)..i].iter().map(|r| r.short()).collect::<Vec<_>>(),
                           "ops": t.ops.iter().map(|o| o.to_json()).collect::<Vec<_>>()}),
                );
                continue;
            }
            // ---- second level: crash during that recovery (sampled)
            let do_second = crash_dir.join("MANIFEST").exists() && (thorough && sampled_rng.chance(0.25) || !thorough && sampled_rng.chance(0.04));
            if do_second {
                // re-materialise (the first recovery mutated it), trace a recovery on it
                let _ = state.materialise(loss, &crash_dir);
                let t2 = scratch.sub("trace2.tsv");
                shim_ctl("reset");
                shim_ctl(&format!("root={}", crash_dir.display()));
                shim_ctl(&format!("trace={}", t2.display()));
                let r1 = recover_backend(&case.cfg, &crash_dir).map(|b| census_backend(&b, &universe));
                shim_ctl("off");
                let Ok(first_outcome) = r1 else { continue };
                let Ok(recs2) = parse_trace(&t2) else { continue };
                let _ = state.materialise(loss, &crash_dir);
                let croot = crash_dir.to_string_lossy().to_string();
                let base = FsModel::from_dir(&croot, &crash_dir);
                let crash2 = scratch.sub("crash2");
                let mut f2 = base.clone();
                for (j, r2) in recs2.iter().enumerate() {
                    // crash before effect j of the recovery
                    for l2 in if pl { vec![Loss::Kill, Loss::AllLost, Loss::DirLost] } else { vec![Loss::Kill] } {
                        if f2.materialise(l2, &crash2).is_err() {
                            continue;
                        }
                        second_level += 1;
                        match recover_backend(&case.cfg, &crash2) {
                            Ok(b) => {
                                let got = census_backend(&b, &universe);
                                if !diff_models(&first_outcome, &got).is_empty() {
                                    out.violation(
                                        format!("crash-during-startup-changes-outcome|before={}|loss={:?}", desc_effect(Some(r2)), l2),
                                        format!("case {}: a crash before effect {} of a recovery ({}) changes what the next start-up recovers: {:?}", idx, j, r2.short(), diff_models(&first_outcome, &got)),
                                        json!({"check":"C01","seed":seed,"case":idx,"thorough":thorough,"crash_before_record":i,"second_level_effect":j}),
                                    );
                                }
                            }
                            Err(e) => out.violation(
                                format!("crash-during-startup-breaks-restart|before={}|loss={:?}", desc_effect(Some(r2)), l2),
                                format!("case {}: after a crash before effect {} of a recovery ({}) the next strict start-up fails: {:#}", idx, j, r2.short(), e),
                                json!({"check":"C01","seed":seed,"case":idx,"thorough":thorough,"crash_before_record":i,"second_level_effect":j}),
                            ),
                        }
                    }
                    f2.apply(r2, None);
                }
            }
        }
        if viol_count > 60 {
            break;
        }
        if let Some(r) = next {
            fs.apply(r, None);
            last_effect = Some(r);
        }
    }
    out.eval();
    out.count("crash_states", crash_states);
    out.count("second_level_crash_states", second_level);
    out.count("ops", t.ops.len() as u64);
    if idx % 13 == 0 {
        out.sample(json!({"case": idx, "cfg": case.cfg.to_json(), "ops": t.ops.iter().take(5).map(|o| o.to_json()).collect::<Vec<_>>(), "fs_effects": effects.len(), "crash_states": crash_states,
                          "effects_head": t.recs.iter().filter(|r| !r.is_mark()).take(8).map(|r| r.short()).collect::<Vec<_>>()}));
    }
}
