//! C01, server legs: the periodic-fsync clause and SIGKILL/power-loss cross-check on the REAL
//! server binary.
//!
//! The server child runs under LD_PRELOAD=fsshim.so (trace only). The harness acknowledges
//! operations over gRPC with seeded pauses; at sampled failure instants it notes the wall-clock
//! instant and the length of the trace file. Afterwards, for each failure instant, the trace
//! prefix is replayed into the FS persistence model, power loss is applied (all unsynced data lost
//! / data only / seeded mixes with torn tails), the state is materialised and the REAL server is
//! started on it (strict recovery). Oracle: start-up succeeds and the census equals the model after
//! some prefix j of the acknowledged operations with j >= the number of operations acknowledged
//! more than (flush interval + slack) before the failure instant. Under `full` fsync j must cover
//! every acknowledged operation.

use crate::fstrace::*;
use crate::model::gen_unit_vec;
use crate::srv::*;
use crate::util::*;
use serde_json::{json, Value};
use std::collections::{BTreeMap, HashMap};
use std::time::{Duration, Instant};

const DIM: usize = 4;
/// scheduling slack on top of the configured flush interval (wall clock on a loaded machine)
const SLACK_MS: u64 = 1500;

type M = BTreeMap<u64, (Vec<u32>, BTreeMap<String, String>)>;

pub fn run(args: &Args, out: &mut Out) {
    let (Some(bin), Some(shim)) = (args.get("server").map(|s| s.to_string()), args.get("shim").map(|s| s.to_string())) else {
        out.note("server binary / fsshim path missing");
        return;
    };
    let rt = new_rt();
    let only: Option<usize> = args.replay.as_ref().and_then(|p| {
        let v: Value = serde_json::from_str(&std::fs::read_to_string(p).ok()?).ok()?;
        v["replay"]["case"].as_u64().map(|x| x as usize)
    });
    for idx in 0..args.n(64, 640) {
        if let Some(o) = only {
            if o != idx {
                continue;
            }
        } else if !args.mine(idx) {
            continue;
        }
        case(args.seed, idx, &bin, &shim, &rt, out);
    }
}

fn census(cl: &mut Cl, ids: &[u64]) -> Result<M, String> {
    let mut m = M::new();
    for id in ids {
        let q = cl.query(*id, true, "").map_err(|e| e.to_string())?;
        if q.found {
            m.insert(*id, (bits(&q.embedding), q.metadata.iter().filter(|(k, _)| !k.starts_with("__")).map(|(k, v)| (k.clone(), v.clone())).collect()));
        }
    }
    Ok(m)
}

fn case(seed: u64, idx: usize, bin: &str, shim: &str, rt: &std::sync::Arc<tokio::runtime::Runtime>, out: &mut Out) {
    let mut rng = Rng::derive(seed, idx as u64, 0xC01_5);
    let full = idx % 4 == 3;
    let w: u64 = *rng.pick(&[50u64, 100, 200]);
    let cfg = SrvCfg {
        dim: DIM,
        tenants: vec![TenantSpec { id: "solo".into(), max_vectors: 100_000, max_qps: 0, enabled: true, admin: false }],
        fsync: if full { "full" } else { "data_only" },
        wal_flush_ms: w,
        snapshot_interval: *rng.pick(&[1000u64, 1000, 4]),
        max_wal: *rng.pick(&[1u64 << 20, 700, 400]),
        ..Default::default()
    };
    let desc = json!({"check":"C01","leg":"server-periodic","seed":seed,"case":idx,"fsync":cfg.fsync,"wal_flush_ms":w,"snapshot_interval":cfg.snapshot_interval,"max_wal":cfg.max_wal});
    let mut srv = Srv::new(cfg.clone(), bin, rt.clone());
    let trace = srv.scratch.sub("trace.tsv");
    srv.preload = Some(shim.to_string());
    srv.extra_env = vec![("VERIF_FS_ROOT".into(), srv.data_dir().to_string_lossy().to_string()), ("VERIF_FS_TRACE".into(), trace.to_string_lossy().to_string())];
    if let Err(e) = srv.start() {
        out.inconclusive(format!("server start failed: {}", e));
        return;
    }
    let mut cl = match srv.tenant_client("solo") {
        Ok(c) => c,
        Err(e) => {
            out.inconclusive(e);
            return;
        }
    };
    let ids: Vec<u64> = (1..=5).collect();
    let mut states: Vec<M> = vec![M::new()];
    let mut acks: Vec<Instant> = Vec::new();
    let mut hist: Vec<Value> = Vec::new();
    // failure instants: (instant, trace bytes at that instant, #ops acked)
    let mut points: Vec<(Instant, u64, usize)> = Vec::new();
    let n = rng.range(6, 24) as usize;
    let trace_len = |p: &std::path::Path| std::fs::metadata(p).map(|m| m.len()).unwrap_or(0);
    for k in 0..n {
        let id = *rng.pick(&ids);
        let mut m = states.last().unwrap().clone();
        let ok = match rng.below(10) {
            0..=5 => {
                let v = gen_unit_vec(&mut rng, DIM);
                let mut md = HashMap::new();
                md.insert("w".to_string(), k.to_string());
                hist.push(json!({"k":k,"op":"insert","id":id}));
                let r = cl.insert(id, v.clone(), md, "");
                let ok = matches!(&r, Ok(x) if x.success);
                if ok {
                    m.insert(id, (bits(&v), [("w".to_string(), k.to_string())].into_iter().collect()));
                }
                ok
            }
            6..=7 => {
                hist.push(json!({"k":k,"op":"delete","id":id}));
                let r = cl.delete(id, "");
                let ok = r.is_ok();
                if matches!(&r, Ok(x) if x.success) {
                    m.remove(&id);
                }
                ok
            }
            _ => {
                hist.push(json!({"k":k,"op":"update_metadata","id":id}));
                let mut md = HashMap::new();
                md.insert("u".to_string(), k.to_string());
                let r = cl.update_metadata(id, md, true, "");
                let ok = r.is_ok();
                if matches!(&r, Ok(x) if x.success && x.existed) {
                    if let Some(d) = m.get_mut(&id) {
                        d.1.insert("u".to_string(), k.to_string());
                    }
                }
                ok
            }
        };
        if !ok {
            out.inconclusive(format!("case {}: a valid write was refused", idx));
            srv.kill9();
            return;
        }
        acks.push(Instant::now());
        states.push(m);
        // seeded pause: none / short / half an interval / idle for longer than interval + slack
        let pause = match rng.below(12) {
            0..=6 => 0,
            7 => 3,
            8..=9 => w / 2,
            _ => w + SLACK_MS + 100,
        };
        if pause > 0 {
            std::thread::sleep(Duration::from_millis(pause));
        }
        if pause > w || rng.chance(0.15) {
            points.push((Instant::now(), trace_len(&trace), k + 1));
        }
    }
    // final idle period, then the last failure instant
    std::thread::sleep(Duration::from_millis(w + SLACK_MS + 100));
    points.push((Instant::now(), trace_len(&trace), n));
    srv.kill9();
    let recs_all = match std::fs::read(&trace) {
        Ok(b) => b,
        Err(e) => {
            out.inconclusive(format!("trace unreadable: {}", e));
            return;
        }
    };
    let root = srv.data_dir().to_string_lossy().to_string();
    // sample failure instants (always the last one)
    let mut chosen: Vec<usize> = vec![points.len() - 1];
    for _ in 0..3 {
        let i = rng.usize_below(points.len());
        if !chosen.contains(&i) {
            chosen.push(i);
        }
    }
    let mut judged = 0u64;
    for pi in chosen {
        let (t_f, cut, acked) = points[pi];
        // complete lines only
        let mut end = (cut as usize).min(recs_all.len());
        while end > 0 && recs_all[end - 1] != b'\n' {
            end -= 1;
        }
        let part = srv.scratch.sub("trace.part.tsv");
        if std::fs::write(&part, &recs_all[..end]).is_err() {
            continue;
        }
        let Ok(recs) = parse_trace(&part) else {
            out.inconclusive("trace prefix unparsable");
            continue;
        };
        let mut fs = FsModel::new(&root);
        for r in &recs {
            fs.apply(r, None);
        }
        let required = if full { acked } else { acks.iter().take(acked).filter(|a| t_f.duration_since(**a) > Duration::from_millis(w + SLACK_MS)).count() };
        let losses = [Loss::AllLost, Loss::DataLost, Loss::DirLost, Loss::Mixed(rng.next_u64()), Loss::Mixed(rng.next_u64())];
        for loss in losses {
            let mut s2 = Srv::new(cfg.clone(), bin, rt.clone());
            if fs.materialise(loss, &s2.data_dir()).is_err() {
                out.inconclusive("materialise failed");
                continue;
            }
            let rp = json!({"desc":desc,"failure_point":pi,"acked":acked,"required":required,"loss":format!("{:?}",loss),"history":hist});
            if let Err(e) = s2.start() {
                if !e.contains("exited during start-up") {
                    // watchdog / port trouble: not a verdict
                    out.inconclusive(format!("case {}: recovery server did not come up for a reason other than refusing to start: {}", idx, e));
                    continue;
                }
                out.violation(
                    format!("server-restart-failed-after-power-loss|{}", cfg.fsync),
                    format!("after power loss ({:?}) at a quiescent instant with {} acknowledged operations the server does not start: {}", loss, acked, e),
                    rp,
                );
                return;
            }
            let got = match s2.tenant_client("solo").and_then(|mut c| census(&mut c, &ids)) {
                Ok(g) => g,
                Err(e) => {
                    out.inconclusive(format!("census failed: {}", e));
                    s2.kill9();
                    continue;
                }
            };
            s2.kill9();
            judged += 1;
            let matching: Vec<usize> = (0..=acked).filter(|j| states[*j] == got).collect();
            if matching.is_empty() {
                out.violation(
                    format!("server-recovered-state-is-no-prefix|{}", cfg.fsync),
                    format!("after power loss ({:?}) the recovered collection {:?} equals no prefix of the {} acknowledged operations", loss, got.keys().collect::<Vec<_>>(), acked),
                    rp,
                );
                return;
            }
            let best = *matching.last().unwrap();
            if best < required {
                out.violation(
                    format!("acked-write-lost-after-flush-interval|{}", cfg.fsync),
                    format!(
                        "fsync_policy={} wal_flush_interval_ms={}: power loss ({:?}) {} ms after the last of {} operations that were acknowledged more than interval+{} ms earlier recovers only the first {} operations",
                        cfg.fsync,
                        w,
                        loss,
                        t_f.duration_since(acks[required - 1]).as_millis(),
                        required,
                        SLACK_MS,
                        best
                    ),
                    rp,
                );
                return;
            }
            out.distinct(&(idx, pi, format!("{:?}", loss), best));
        }
    }
    out.eval();
    out.count("server_power_loss_states_recovered_and_judged", judged);
    out.count("server_failure_instants", points.len() as u64);
    if idx % 8 == 0 {
        out.sample(json!({"case":desc,"ops":n,"failure_instants":points.len(),"states_judged":judged}));
    }
}
