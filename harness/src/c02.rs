//! C02 restart is lossless: model-based differential across restarts, with S and L.

use crate::model::*;
use crate::util::*;
use kyrodb_engine::persistence::FsyncPolicy;
use serde_json::{json, Value};

pub struct Case {
    pub cfg: EngCfg,
    pub gen: GenCfg,
    pub len: usize,
    pub seed: u64,
}

pub fn make_case(seed: u64, idx: usize, thorough: bool) -> Case {
    let mut rng = Rng::derive(seed, idx as u64, 0xC02);
    let dims = [1usize, 2, 3, 8, 17];
    let snaps = [0usize, 1, 2, 7, 1000];
    let wals = [64u64, 300, 4096, 100 * 1024 * 1024];
    let caps = [4usize, 16, 100_000];
    // walk the grid deterministically so that a quick run already touches every value of every
    // axis, then randomise the combination
    let dim = dims[(idx + rng.usize_below(2)) % dims.len()];
    let metric = metric_from(idx / 2 + rng.usize_below(3));
    let snapshot_interval = snaps[(idx / 3 + rng.usize_below(5)) % snaps.len()];
    let max_wal = wals[(idx / 5 + rng.usize_below(4)) % wals.len()];
    let capacity = caps[(idx / 7 + rng.usize_below(3)) % caps.len()];
    let tiered = idx % 4 == 3;
    let n_ids = if capacity == 4 { 4 } else { rng.range(3, 9) };
    let cfg = EngCfg {
        dim,
        metric,
        capacity,
        snapshot_interval,
        max_wal,
        fsync: match rng.below(3) {
            0 => FsyncPolicy::Always,
            1 => FsyncPolicy::Periodic(0),
            _ => FsyncPolicy::Never,
        },
        tiered,
        hot_soft: 2,
        hot_hard: 4,
    };
    let gen = GenCfg {
        n_ids,
        dim,
        metric,
        p_snapshot: 0.05,
        p_restart: [0.0, 0.03, 0.08, 0.15][rng.usize_below(4)],
        p_flush: if tiered { 0.05 } else { 0.0 },
    };
    Case {
        cfg,
        gen,
        len: if thorough { rng.range(30, 90) as usize } else { rng.range(20, 50) as usize },
        seed: rng.next_u64(),
    }
}

pub fn run(args: &Args) -> Out {
    let mut out = Out::new("C02", "restart-differential");
    if let Some(p) = &args.replay {
        let v: Value = serde_json::from_str(&std::fs::read_to_string(p).expect("replay file"))
            .expect("replay json");
        let idx = v["replay"]["case"].as_u64().unwrap_or(0) as usize;
        let seed = v["replay"]["seed"].as_u64().unwrap_or(args.seed);
        let thorough = v["replay"]["thorough"].as_bool().unwrap_or(false);
        run_case(seed, idx, thorough, &mut out);
        return out;
    }
    let n = args.n(80_000, 640_000);
    for idx in 0..n {
        if !args.mine(idx) {
            continue;
        }
        run_case(args.seed, idx, args.thorough, &mut out);
    }
    out
}

fn run_case(seed: u64, idx: usize, thorough: bool, out: &mut Out) {
    let case = make_case(seed, idx, thorough);
    let mut rng = Rng::new(case.seed);
    let scratch = Scratch::new("c02");
    let dir = scratch.sub("data");
    let universe: Vec<u64> = (0..case.gen.n_ids).collect();
    let mut history: Vec<Value> = Vec::new();
    let replay = |history: &Vec<Value>, case: &Case| {
        json!({"check":"C02","seed":seed,"case":idx,"thorough":thorough,"cfg":case.cfg.to_json(),"history":history})
    };
    let mut eng = match Eng::create(&case.cfg, &dir) {
        Ok(e) => e,
        Err(e) => {
            out.violation(
                "create-failed",
                format!("engine creation failed: {:#}", e),
                replay(&history, &case),
            );
            return;
        }
    };
    let mut model = Model::default();
    let mut prev_log = LogState::default();
    let mut restarts = 0u32;
    let mut kinds = std::collections::BTreeSet::new();
    let total = case.len + 1;
    for step in 0..total {
        let op = if step == case.len {
            Op::Restart
        } else {
            gen_op(&mut rng, &case.gen, &model.live())
        };
        history.push(op.to_json());
        kinds.insert(op.kind());
        match &op {
            Op::Insert { id, vec, meta } => match eng.insert(*id, vec.clone(), meta) {
                Ok(()) => match eng.cold().fetch_document(*id) {
                    Some(stored) => {
                        if !stored_is_plausible(case.cfg.metric, vec, &stored) {
                            out.violation(
                                "ack-readback",
                                format!(
                                    "step {}: acknowledged insert of id {} reads back {:?} for input {:?}",
                                    step, id, stored, vec
                                ),
                                replay(&history, &case),
                            );
                            return;
                        }
                        model.apply_insert(*id, bits(&stored), meta.clone());
                    }
                    None => {
                        out.violation(
                            "ack-readback",
                            format!("step {}: acknowledged insert of id {} not readable", step, id),
                            replay(&history, &case),
                        );
                        return;
                    }
                },
                Err(_) => out.count("rejected_ops", 1),
            },
            Op::Delete { id } => match eng.delete(*id) {
                Ok(existed) => {
                    let m = model.apply_delete(*id);
                    if existed != m {
                        out.violation(
                            "delete-result",
                            format!("step {}: delete({}) returned {} but model says {}", step, id, existed, m),
                            replay(&history, &case),
                        );
                        return;
                    }
                }
                Err(_) => out.count("rejected_ops", 1),
            },
            Op::BatchDelete { ids } => match eng.batch_delete(ids) {
                Ok(n) => {
                    let mut cnt = 0;
                    for id in ids {
                        if model.apply_delete(*id) {
                            cnt += 1;
                        }
                    }
                    if n != cnt {
                        out.violation(
                            "batch-delete-result",
                            format!("step {}: batch_delete({:?}) returned {} but model removed {}", step, ids, n, cnt),
                            replay(&history, &case),
                        );
                        return;
                    }
                }
                Err(_) => out.count("rejected_ops", 1),
            },
            Op::UpdateMeta { id, meta, merge } => match eng.update_metadata(*id, meta, *merge) {
                Ok(existed) => {
                    let m = model.apply_update(*id, meta, *merge);
                    if existed != m {
                        out.violation(
                            "update-result",
                            format!("step {}: update_metadata({}) returned {} but model says {}", step, id, existed, m),
                            replay(&history, &case),
                        );
                        return;
                    }
                }
                Err(_) => out.count("rejected_ops", 1),
            },
            Op::Snapshot => {
                if let Err(e) = eng.snapshot() {
                    out.violation(
                        "snapshot-failed",
                        format!("step {}: create_snapshot failed: {:#}", step, e),
                        replay(&history, &case),
                    );
                    return;
                }
            }
            Op::Flush => {
                if let Err(e) = eng.flush() {
                    out.violation(
                        "flush-failed",
                        format!("step {}: flush_hot_tier failed: {:#}", step, e),
                        replay(&history, &case),
                    );
                    return;
                }
            }
            Op::Restart => {
                restarts += 1;
                let pre = census_backend(eng.cold(), &universe);
                let d = diff_models(&model, &pre);
                if !d.is_empty() {
                    out.violation(
                        "live-mismatch",
                        format!("step {}: live engine differs from model before stop: {:?}", step, d),
                        replay(&history, &case),
                    );
                    return;
                }
                let s = shape_invariants(eng.cold());
                if !s.is_empty() {
                    out.violation(
                        "shape-live",
                        format!("step {}: shape invariants broken before stop: {:?}", step, s),
                        replay(&history, &case),
                    );
                    return;
                }
                drop(eng);
                match check_logs(&dir) {
                    Ok(st) => {
                        if st.snapshot_seq < prev_log.snapshot_seq {
                            out.violation(
                                "logs-snapshot-seq-decreased",
                                format!("step {}: published snapshot seq went from {} to {}", step, prev_log.snapshot_seq, st.snapshot_seq),
                                replay(&history, &case),
                            );
                            return;
                        }
                        if st.max_seq < prev_log.max_seq {
                            out.violation(
                                "logs-max-seq-decreased",
                                format!("step {}: max seq went from {} to {}", step, prev_log.max_seq, st.max_seq),
                                replay(&history, &case),
                            );
                            return;
                        }
                        out.count("wal_entries_read", st.entries as u64);
                        out.set_max("max_segments", st.segments as u64);
                        prev_log = st;
                    }
                    Err(errs) => {
                        out.violation(
                            "logs",
                            format!("step {}: on-disk log inconsistent after clean stop: {:?}", step, errs),
                            replay(&history, &case),
                        );
                        return;
                    }
                }
                eng = match Eng::recover(&case.cfg, &dir) {
                    Ok(e) => e,
                    Err(e) => {
                        out.violation(
                            "recover-failed",
                            format!("step {}: strict recovery after clean stop failed: {:#}", step, e),
                            replay(&history, &case),
                        );
                        return;
                    }
                };
                let post = census_backend(eng.cold(), &universe);
                let d = diff_models(&pre, &post);
                if !d.is_empty() {
                    out.violation(
                        "recover-mismatch",
                        format!("step {}: recovered collection differs from live before stop: {:?}", step, d),
                        replay(&history, &case),
                    );
                    return;
                }
                let s = shape_invariants(eng.cold());
                if !s.is_empty() {
                    out.violation(
                        "shape-recovered",
                        format!("step {}: shape invariants broken after recovery: {:?}", step, s),
                        replay(&history, &case),
                    );
                    return;
                }
                // user-facing reads agree as well
                for id in &universe {
                    let r = eng.read(*id);
                    let exp = model.docs.get(id);
                    let ok = match (&r, exp) {
                        (None, None) => true,
                        (Some((v, m)), Some(d)) => bits(v) == d.bits && *m == d.meta,
                        _ => false,
                    };
                    if !ok {
                        out.violation(
                            "recover-read",
                            format!("step {}: read({}) after recovery = {:?}, model = {:?}", step, id, r, exp),
                            replay(&history, &case),
                        );
                        return;
                    }
                }
            }
        }
    }
    out.eval();
    out.count("ops", total as u64);
    out.count("restarts", restarts as u64);
    // non-trivial: at least one restart with a non-empty collection at some point and >= 3 op kinds
    if kinds.len() >= 3 {
        out.distinct(&(
            format!("{:?}", case.cfg.to_json()),
            history.iter().map(|h| h.to_string()).collect::<Vec<_>>(),
        ));
    }
    if idx % 97 == 0 {
        out.sample(json!({"case": idx, "cfg": case.cfg.to_json(), "ops": history.len(), "restarts": restarts,
            "first_ops": history.iter().take(6).collect::<Vec<_>>(), "final_docs": model.docs.len()}));
    }
}
