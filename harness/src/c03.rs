//! C03 a write that reports failure changes nothing, now or after restart.
//!
//! leg invalid-inputs: every invalid-input class on every write path (single, tiered, bulk load,
//!   drain repair), as a new id and as an overwrite of a live id, all metrics; oracle: Err => live
//!   and recovered collections unchanged, Ok => readable and durable.
//! leg storage-faults (under fsshim): errno / short-write injection at the n-th write / fsync /
//!   fdatasync / ftruncate / rename / open of an operation, including double faults aimed at the
//!   engine's own rollback and retry; same oracle plus S and L and "later writes succeed".

use crate::fstrace::*;
use crate::model::*;
use crate::util::*;
use kyrodb_engine::config::DistanceMetric;
use kyrodb_engine::coherence::VectorCoherenceToken;
use kyrodb_engine::persistence::FsyncPolicy;
use kyrodb_engine::digest_embedding;
use serde_json::{json, Value};

pub fn run(args: &Args) -> Out {
    let leg = args.get("leg").unwrap_or("invalid-inputs").to_string();
    let mut out = Out::new("C03", &leg);
    let replay: Option<(u64, usize, bool)> = args.replay.as_ref().and_then(|p| {
        let v: Value = serde_json::from_str(&std::fs::read_to_string(p).ok()?).ok()?;
        Some((v["replay"]["seed"].as_u64()?, v["replay"]["case"].as_u64()? as usize, v["replay"]["thorough"].as_bool().unwrap_or(false)))
    });
    match leg.as_str() {
        "invalid-inputs" => {
            if let Some((s, c, _)) = replay {
                invalid_case(s, c, &mut out);
            } else {
                for idx in 0..args.n(20_160, 40_320) {
                    if args.mine(idx) {
                        invalid_case(args.seed, idx, &mut out);
                    }
                }
            }
        }
        "storage-faults" => {
            if !shim_loaded() {
                out.note("fsshim not preloaded");
                return out;
            }
            if let Some((s, c, t)) = replay {
                fault_case(s, c, t, &mut out);
            } else {
                for idx in 0..args.n(48_000, 256_000) {
                    if args.mine(idx) {
                        fault_case(args.seed, idx, args.thorough, &mut out);
                    }
                }
            }
        }
        _ => {}
    }
    out
}

// ---------------------------------------------------------------------------------------------

const CLASSES: [&str; 12] = [
    "dim-short", "dim-long", "zero", "nan-lane", "pos-inf-lane", "neg-inf-lane", "overflow-norm", "subnormal-norm", "all-nan",
    "index-full", "index-full-with-tombstones", "valid-control",
];
const PATHS: [&str; 4] = ["backend.insert", "tiered.insert", "tiered.bulk_load", "tiered.drain_repair"];

fn bad_vector(class: &str, dim: usize, rng: &mut Rng, metric: DistanceMetric) -> Vec<f32> {
    let good = gen_vec(rng, dim, metric);
    match class {
        "dim-short" => good[..dim - 1].to_vec(),
        "dim-long" => {
            let mut v = good.clone();
            v.push(0.5);
            v
        }
        "zero" => vec![0.0; dim],
        "nan-lane" => {
            let mut v = good;
            let i = rng.usize_below(dim);
            v[i] = f32::NAN;
            v
        }
        "pos-inf-lane" => {
            let mut v = good;
            let i = rng.usize_below(dim);
            v[i] = f32::INFINITY;
            v
        }
        "neg-inf-lane" => {
            let mut v = good;
            let i = rng.usize_below(dim);
            v[i] = f32::NEG_INFINITY;
            v
        }
        "overflow-norm" => (0..dim).map(|i| if i % 2 == 0 { f32::MAX } else { -f32::MAX / 2.0 }).collect(),
        "subnormal-norm" => (0..dim).map(|_| 1e-30f32).collect(),
        "all-nan" => vec![f32::NAN; dim],
        _ => good,
    }
}

fn invalid_case(seed: u64, idx: usize, out: &mut Out) {
    let mut rng = Rng::derive(seed, idx as u64, 0xC03);
    let class = CLASSES[idx % CLASSES.len()];
    let path = PATHS[(idx / CLASSES.len()) % PATHS.len()];
    let metric = metric_from(idx / (CLASSES.len() * PATHS.len()));
    let overwrite = (idx / (CLASSES.len() * PATHS.len() * 3)) % 2 == 1;
    let dim = [2usize, 3, 5, 8][rng.usize_below(4)];
    let full = class.starts_with("index-full");
    let cfg = EngCfg {
        dim,
        metric,
        capacity: if full { 4 } else { 10_000 },
        snapshot_interval: *rng.pick(&[0usize, 2, 1000]),
        max_wal: *rng.pick(&[128u64, 1 << 20]),
        fsync: FsyncPolicy::Never,
        tiered: path != "backend.insert",
        hot_soft: 2,
        hot_hard: 100,
    };
    let desc = json!({"check":"C03","leg":"invalid-inputs","seed":seed,"case":idx,"class":class,"path":path,"metric":metric_name(metric),"overwrite":overwrite,"dim":dim});
    let scratch = Scratch::new("c03i");
    let dir = scratch.sub("data");
    let eng = match Eng::create(&cfg, &dir) {
        Ok(e) => e,
        Err(e) => {
            out.violation("create-failed", format!("{:#}", e), desc);
            return;
        }
    };
    let mut model = Model::default();
    let universe: Vec<u64> = (0..8).collect();
    // a few valid documents first
    let n0 = if full { if class == "index-full" { 4 } else { 3 } } else { rng.range(1, 4) };
    for id in 0..n0 {
        let v = gen_vec(&mut rng, dim, metric);
        let m = gen_meta(&mut rng);
        if eng.insert(id, v, &m).is_ok() {
            if let Some(st) = eng.cold().fetch_document(id) {
                model.apply_insert(id, bits(&st), m);
            }
        }
    }
    if class == "index-full-with-tombstones" {
        // one overwrite makes a tombstone and fills the index (3 live + 1 tombstone = 4 slots)
        let v = gen_vec(&mut rng, dim, metric);
        let m = gen_meta(&mut rng);
        if eng.insert(0, v, &m).is_ok() {
            if let Some(st) = eng.cold().fetch_document(0) {
                model.apply_insert(0, bits(&st), m);
            }
        }
    }
    let target: u64 = if overwrite { 0 } else { 6 };
    let vec = if full { gen_vec(&mut rng, dim, metric) } else { bad_vector(class, dim, &mut rng, metric) };
    let meta = gen_meta(&mut rng);
    // ---- the operation under test
    let reported_ok: bool = match (&eng, path) {
        (Eng::Backend(b), _) => b.insert(target, vec.clone(), to_hm(&meta)).is_ok(),
        (Eng::Tiered(t), "tiered.insert") => t.insert(target, vec.clone(), to_hm(&meta)).is_ok(),
        (Eng::Tiered(t), "tiered.bulk_load") => match t.bulk_load_cold_tier(vec![(target, vec.clone(), to_hm(&meta))]) {
            Ok((loaded, _failed, _, _)) => loaded == 1,
            Err(_) => false,
        },
        (Eng::Tiered(t), _) => {
            // drain repair: a mirror for an id without canonical record carrying the vector under test
            // (only meaningful for a new id; for the overwrite variant the planted mirror is for a deleted id)
            if overwrite {
                let _ = t.delete(target);
                model.apply_delete(target);
            }
            if vec.len() == dim {
                t.hot_tier().insert_with_coherence(target, vec.clone(), to_hm(&meta), VectorCoherenceToken::new(1, digest_embedding(&vec)));
            }
            let _ = t.flush_hot_tier(true);
            // the repair either re-inserted it (visible) or not; what matters is live == recovered
            t.cold_tier().exists(target)
        }
    };
    out.eval();
    out.distinct(&(class, path, metric_name(metric), overwrite));
    if reported_ok {
        out.count("accepted", 1);
        match eng.cold().fetch_document(target) {
            Some(st) => {
                if path == "tiered.drain_repair" {
                    // by-design repair (known finding of C04); keep the model in step so that durability is still judged
                    let m = eng.cold().fetch_metadata(target).map(|m| from_hm(&m)).unwrap_or_default();
                    model.apply_insert(target, bits(&st), m);
                } else {
                    if st.iter().any(|x| !x.is_finite()) {
                        out.violation("non-finite-vector-stored", format!("{} accepted a {} vector and stores {:?}; {}", path, class, st, desc), desc.clone());
                        return;
                    }
                    model.apply_insert(target, bits(&st), meta.clone());
                }
            }
            None => {
                out.violation("ack-not-readable", format!("{} reported success for class {} but the document is not readable; {}", path, class, desc), desc.clone());
                return;
            }
        }
    } else {
        out.count("refused", 1);
    }
    // live collection must be exactly the model
    let live = census_backend(eng.cold(), &universe);
    let d = diff_models(&model, &live);
    if !d.is_empty() {
        out.violation(format!("failed-write-changed-live|{}|{}", class, path), format!("after a {} {} via {} the live collection differs from the model: {:?}; {}", if reported_ok { "successful" } else { "refused" }, class, path, d, desc), desc.clone());
        return;
    }
    let s = shape_invariants(eng.cold());
    if !s.is_empty() {
        out.violation("shape", format!("{:?}; {}", s, desc), desc.clone());
        return;
    }
    // a later valid write must still work and be durable
    let v2 = gen_vec(&mut rng, dim, metric);
    let m2 = gen_meta(&mut rng);
    let later_id = 7u64;
    if !full {
        match eng.insert(later_id, v2, &m2) {
            Ok(()) => {
                if let Some(st) = eng.cold().fetch_document(later_id) {
                    model.apply_insert(later_id, bits(&st), m2);
                }
            }
            Err(e) => {
                out.violation(format!("later-valid-write-refused|{}|{}", class, path), format!("a valid insert after the refused {} via {} fails: {:#}; {}", class, path, e, desc), desc.clone());
                return;
            }
        }
    }
    drop(eng);
    match recover_backend(&cfg, &dir) {
        Ok(b) => {
            let rec = census_backend(&b, &universe);
            let d = diff_models(&model, &rec);
            if !d.is_empty() {
                out.violation(
                    format!("failed-write-changed-recovered|{}|{}", class, path),
                    format!("after a {} {} via {} ({}) the recovered collection differs from the model: {:?}; {}", if reported_ok { "successful" } else { "refused" }, class, path, if overwrite { "overwrite of a live id" } else { "new id" }, d, desc),
                    desc.clone(),
                );
            }
        }
        Err(e) => out.violation(
            format!("restart-fails-after-refused-write|{}|{}", class, path),
            format!("strict recovery fails after a {} {} via {}: {}; {}", if reported_ok { "successful" } else { "refused" }, class, path, format!("{:#}", e).chars().take(240).collect::<String>(), desc),
            desc.clone(),
        ),
    }
    if idx % 293 == 0 {
        out.sample(desc);
    }
}

// ---------------------------------------------------------------------------------------------

const ERRNOS: [(i32, &str); 5] = [(28, "ENOSPC"), (5, "EIO"), (122, "EDQUOT"), (4, "EINTR"), (13, "EACCES")];

/// fault plans relative to the start of the faulted operation
fn fault_plan(rng: &mut Rng, thorough: bool) -> (String, String) {
    let (errno, ename) = ERRNOS[rng.usize_below(ERRNOS.len())];
    let nth = rng.range(1, if thorough { 6 } else { 3 });
    let pick = rng.below(if thorough { 14 } else { 12 });
    // data that reaches the file although the call reports an error is only modelled for EIO
    // (state after an I/O error is unspecified); EINTR/ENOSPC/EDQUOT/EACCES fail without side effect,
    // and short counts are always followed by a separate failing call, as real kernels behave
    let eio = 5;
    let spec = match pick {
        0 => format!("write:{}:{}", nth, errno),
        1 => format!("fsync:{}:{}", nth, errno),
        2 => format!("fdatasync:{}:{}", nth, errno),
        3 => format!("rename:{}:{}", nth, errno),
        4 => format!("open:{}:{}", nth, errno),
        // short write then success of the remainder
        5 => format!("write:{}:0:{}", nth, [0, 1, 3][rng.usize_below(3)]),
        // short count, then the continuation fails
        6 => format!("write:{}:0:{};write:{}:{}", nth, [1, 3, 7][rng.usize_below(3)], nth + 1, errno),
        // short count, continuation fails, and the rollback truncate fails too
        7 => format!("write:{}:0:{};write:{}:{};ftruncate:1:{}", nth, [1, 3][rng.usize_below(2)], nth + 1, errno, errno),
        // I/O error with partial data on disk, then failed fdatasync of the rollback
        8 => format!("write:{}:{}:3;fdatasync:1:{}", nth, eio, errno),
        // failed fsync, then failing retries
        9 => format!("fsync:{}:{}:-1:{}", nth, errno, rng.range(1, 6)),
        10 => format!("write:{}:{}:-1:{}", nth, errno, rng.range(1, 6)),
        // I/O error with partial data + failed rollback truncate
        11 => format!("write:{}:{}:{};ftruncate:1:{}", nth, eio, [1, 3, 7][rng.usize_below(3)], errno),
        12 => format!("unlink:{}:{}", nth, errno),
        _ => format!("write:{}:0:1;write:{}:{};ftruncate:1:{};write:{}:{}", nth, nth + 1, errno, errno, nth + 2, errno),
    };
    (spec, ename.to_string())
}

fn fault_classes(spec: &str) -> String {
    spec.split(';').map(|p| p.split(':').next().unwrap_or("")).collect::<Vec<_>>().join("+")
}

fn fault_case(seed: u64, idx: usize, thorough: bool, out: &mut Out) {
    let mut rng = Rng::derive(seed, idx as u64, 0xF03);
    let metric = metric_from(idx);
    let dim = [2usize, 3, 4][rng.usize_below(3)];
    let cfg = EngCfg {
        dim,
        metric,
        capacity: *rng.pick(&[6usize, 10_000]),
        snapshot_interval: *rng.pick(&[1usize, 2, 4, 1000]),
        max_wal: *rng.pick(&[64u64, 200, 1 << 20]),
        fsync: match idx % 3 {
            0 => FsyncPolicy::Always,
            1 => FsyncPolicy::Periodic(0),
            _ => FsyncPolicy::Never,
        },
        tiered: idx % 5 == 4,
        hot_soft: 2,
        hot_hard: 3,
    };
    let g = GenCfg {
        n_ids: rng.range(3, 6),
        dim,
        metric,
        p_snapshot: 0.10,
        p_restart: 0.04,
        p_flush: 0.0,
    };
    let len = rng.range(8, 22) as usize;
    let fault_at = rng.usize_below(len);
    let (spec, ename) = fault_plan(&mut rng, thorough);
    let desc = json!({"check":"C03","leg":"storage-faults","seed":seed,"case":idx,"thorough":thorough,"cfg":cfg.to_json(),"fault_at_op":fault_at,"fault":spec,"errno":ename});
    let scratch = Scratch::new("c03f");
    let dir = scratch.sub("data");
    shim_ctl("reset");
    shim_ctl(&format!("root={}", dir.display()));
    let mut eng = match Eng::create(&cfg, &dir) {
        Ok(e) => e,
        Err(e) => {
            shim_ctl("off");
            out.violation("create-failed", format!("{:#}", e), desc);
            return;
        }
    };
    let universe: Vec<u64> = (0..g.n_ids).collect();
    let mut model = Model::default();
    let mut history: Vec<Value> = Vec::new();
    let mut faulted_kind = "";
    let mut faulted_result = String::new();
    let mut breaker_suspected = false;
    let mut faulted_touched: std::collections::BTreeSet<u64> = Default::default();
    let mut faulted_err = false;
    // double faults that make the engine's own rollback fail leave the failed operation's complete
    // frames in the log: inherent to a WAL without atomic multi-frame batches (known finding)
    let rollback_fault = spec.contains("ftruncate") || spec.contains(";fdatasync");
    macro_rules! viol {
        ($sig:expr, $($fmt:tt)*) => {{
            shim_ctl("off");
            out.violation($sig, format!($($fmt)*), json!({"check":"C03","leg":"storage-faults","seed":seed,"case":idx,"thorough":thorough,"cfg":cfg.to_json(),"fault_at_op":fault_at,"fault":spec,"history":history}));
            return;
        }};
    }
    for k in 0..len {
        let op = gen_op(&mut rng, &g, &model.live());
        history.push(op.to_json());
        let faulted = k == fault_at;
        if faulted {
            shim_ctl(&format!("fault={}", spec));
            faulted_kind = op.kind();
        }
        let res: Result<(), String> = match &op {
            Op::Insert { id, vec, meta } => match eng.insert(*id, vec.clone(), meta) {
                Ok(()) => match eng.cold().fetch_document(*id) {
                    Some(st) => {
                        model.apply_insert(*id, bits(&st), meta.clone());
                        Ok(())
                    }
                    None => viol!("ack-not-readable", "op {}: acknowledged insert {} is not readable", k, id),
                },
                Err(e) => Err(format!("{:#}", e)),
            },
            Op::Delete { id } => match eng.delete(*id) {
                Ok(_) => {
                    model.apply_delete(*id);
                    Ok(())
                }
                Err(e) => Err(format!("{:#}", e)),
            },
            Op::BatchDelete { ids } => match eng.batch_delete(ids) {
                Ok(_) => {
                    for id in ids {
                        model.apply_delete(*id);
                    }
                    Ok(())
                }
                Err(e) => Err(format!("{:#}", e)),
            },
            Op::UpdateMeta { id, meta, merge } => match eng.update_metadata(*id, meta, *merge) {
                Ok(true) => {
                    model.apply_update(*id, meta, *merge);
                    Ok(())
                }
                Ok(false) => Ok(()),
                Err(e) => Err(format!("{:#}", e)),
            },
            Op::Snapshot => eng.snapshot().map_err(|e| format!("{:#}", e)),
            Op::Flush => eng.flush().map_err(|e| format!("{:#}", e)),
            Op::Restart => {
                drop(eng);
                let r = Eng::recover(&cfg, &dir);
                shim_ctl("fault=");
                match r {
                    Ok(e) => {
                        eng = e;
                        Ok(())
                    }
                    Err(first) => match Eng::recover(&cfg, &dir) {
                        // a start-up that failed because of an injected fault must succeed when retried without it
                        Ok(e) => {
                            eng = e;
                            Err(format!("{:#}", first))
                        }
                        Err(e) => viol!(
                            format!("restart-fails-after-faulted-restart|{}", spec.split(':').next().unwrap_or("")),
                            "op {}: a restart hit by the fault failed ({:#}) and the next fault-free strict start-up fails too: {:#}",
                            k,
                            first,
                            e
                        ),
                    },
                }
            }
        };
        if faulted {
            faulted_err = res.is_err();
            faulted_touched = match &op {
                Op::Insert { id, .. } | Op::Delete { id } | Op::UpdateMeta { id, .. } => [*id].into_iter().collect(),
                Op::BatchDelete { ids } => ids.iter().copied().collect(),
                _ => Default::default(),
            };
        }
        if faulted {
            shim_ctl("fault=");
            faulted_result = match &res {
                Ok(()) => "ok".into(),
                Err(e) => format!("err: {}", e.chars().take(100).collect::<String>()),
            };
        }
        if let Err(e) = &res {
            out.count("ops_reporting_failure", 1);
            if e.contains("circuit breaker") || e.contains("Disk full") {
                breaker_suspected = true;
            }
        }
        // live == model after every op from the faulted one on
        if k >= fault_at {
            let live = census_backend(eng.cold(), &universe);
            let d = diff_models(&model, &live);
            if !d.is_empty() {
                let confined = faulted_err && rollback_fault && !faulted_touched.is_empty() && diff_ids(&model, &live).is_subset(&faulted_touched);
                if confined {
                    viol!("failed-op-durable-after-failed-rollback", "op {} ({}): after fault {} {} at op {} ({} -> {}) the failed operation's own effect became visible after a restart: {:?}", k, op.kind(), spec, ename, fault_at, faulted_kind, faulted_result, d);
                }
                viol!(
                    format!("failed-write-changed-live|{}|{}", faulted_kind, fault_classes(&spec)),
                    "op {} ({}; fault {} {} injected at op {} -> {}): live collection differs from model: {:?}",
                    k,
                    op.kind(),
                    spec,
                    ename,
                    fault_at,
                    faulted_result,
                    d
                );
            }
        }
    }
    // later valid write succeeds (unless the engine declared itself degraded / the breaker is open)
    if !breaker_suspected && !eng.cold().is_wal_inconsistent() {
        let v = gen_vec(&mut rng, dim, metric);
        let m = gen_meta(&mut rng);
        let id = g.n_ids - 1;
        // make room when the tiny index is full
        match eng.insert(id, v, &m) {
            Ok(()) => {
                if let Some(st) = eng.cold().fetch_document(id) {
                    model.apply_insert(id, bits(&st), m);
                }
            }
            Err(e) => {
                // refusing further writes after a storage fault (breaker, degraded or poisoned WAL) is
                // allowed by the property; it is only counted
                let _ = e;
                out.count("later_writes_refused_after_fault", 1);
            }
        }
    }
    let s = shape_invariants(eng.cold());
    if !s.is_empty() {
        viol!("shape", "shape invariants broken after fault {}: {:?}", spec, s);
    }
    drop(eng);
    shim_ctl("off");
    // restart == model
    match recover_backend(&cfg, &dir) {
        Ok(b) => {
            let rec = census_backend(&b, &universe);
            let d = diff_models(&model, &rec);
            if !d.is_empty() {
                let confined = faulted_err && rollback_fault && !faulted_touched.is_empty() && diff_ids(&model, &rec).is_subset(&faulted_touched);
                out.violation(
                    if confined { "failed-op-durable-after-failed-rollback".to_string() } else { format!("fault-changed-recovered|{}|{}", faulted_kind, fault_classes(&spec)) },
                    format!("fault {} {} at op {} ({} -> {}): recovered collection differs from model (acknowledged ops only): {:?}", spec, ename, fault_at, faulted_kind, faulted_result, d),
                    json!({"check":"C03","leg":"storage-faults","seed":seed,"case":idx,"thorough":thorough,"cfg":cfg.to_json(),"fault_at_op":fault_at,"fault":spec,"history":history}),
                );
                return;
            }
            // and the recovered engine accepts a write that survives another restart
            let v = gen_vec(&mut rng, dim, metric);
            let m = gen_meta(&mut rng);
            let id = 0u64;
            let mut model2 = model.clone();
            if b.insert(id, v, to_hm(&m)).is_ok() {
                if let Some(st) = b.fetch_document(id) {
                    model2.apply_insert(id, bits(&st), m);
                }
            }
            drop(b);
            match recover_backend(&cfg, &dir) {
                Ok(b2) => {
                    let d = diff_models(&model2, &census_backend(&b2, &universe));
                    if !d.is_empty() {
                        out.violation(
                            format!("post-fault-write-not-durable|{}", spec.split(':').next().unwrap_or("")),
                            format!("a write acknowledged after the post-fault restart is not preserved by the next restart: {:?}", d),
                            json!({"check":"C03","leg":"storage-faults","seed":seed,"case":idx,"thorough":thorough,"fault":spec,"history":history}),
                        );
                        return;
                    }
                }
                Err(e) => {
                    out.violation(
                        "second-restart-failed",
                        format!("second restart after fault {} failed: {:#}", spec, e),
                        json!({"check":"C03","leg":"storage-faults","seed":seed,"case":idx,"thorough":thorough,"fault":spec,"history":history}),
                    );
                    return;
                }
            }
        }
        Err(e) => {
            out.violation(
                format!("restart-fails-after-fault|{}|{}", faulted_kind, spec.split(';').map(|p| p.split(':').next().unwrap_or("")).collect::<Vec<_>>().join("+")),
                format!("fault {} {} at op {} ({} -> {}): the next strict start-up fails: {}", spec, ename, fault_at, faulted_kind, faulted_result, format!("{:#}", e).chars().take(300).collect::<String>()),
                json!({"check":"C03","leg":"storage-faults","seed":seed,"case":idx,"thorough":thorough,"cfg":cfg.to_json(),"fault_at_op":fault_at,"fault":spec,"history":history}),
            );
            return;
        }
    }
    out.eval();
    out.count("faults_injected", 1);
    out.distinct(&(spec.clone(), faulted_kind, fault_at, format!("{:?}", cfg.fsync)));
    if idx % 97 == 0 {
        out.sample(json!({"case": desc, "faulted_op": faulted_kind, "faulted_result": faulted_result}));
    }
}
