//! C04 (lookups by id return the canonical latest version whatever the caches hold) and
//! C20 (caches and the recent-write tier stay within their configured bounds).
//!
//! One sequential history per case against a TieredEngine; after *every* step every read flavour
//! over the whole id universe is compared bit-exactly with the sequential model, and every size
//! bound is read. Adversarial pokes plant stale / corrupt entries through public APIs only.

use crate::model::*;
use crate::util::*;
use kyrodb_engine::cache_strategy::{AbTestSplitter, CacheStrategy};
use kyrodb_engine::coherence::VectorCoherenceToken;
use kyrodb_engine::config::DistanceMetric;
use kyrodb_engine::learned_cache::{AccessEvent, AccessType};
use kyrodb_engine::persistence::FsyncPolicy;
use kyrodb_engine::vector_cache::CachedVector;
use kyrodb_engine::{
    digest_embedding, LearnedCachePredictor, LearnedCacheStrategy, LruCacheStrategy,
    QueryHashCache, SemanticAdapter, TieredEngine,
};
use serde_json::{json, Value};
use std::sync::Arc;
use std::time::{Instant, SystemTime};

#[derive(Clone, Copy, Debug, PartialEq)]
pub enum StratKind {
    Lru,
    LearnedUntrained,
    LearnedTrained,
    LearnedSemantic,
    Ab,
}

pub struct Strat {
    pub kind: StratKind,
    pub top: Arc<dyn CacheStrategy>,
    /// the underlying bounded caches with their capacities (A/B has two)
    pub parts: Vec<(Arc<dyn CacheStrategy>, usize)>,
}

pub fn trained_predictor(cap: usize, hot_ids: &[u64]) -> LearnedCachePredictor {
    let mut p = LearnedCachePredictor::new(cap.max(1)).expect("predictor");
    let now = SystemTime::now();
    let mut ev = Vec::new();
    for (i, id) in hot_ids.iter().enumerate() {
        for _ in 0..(20 + 10 * i) {
            ev.push(AccessEvent {
                doc_id: *id,
                timestamp: now,
                access_type: AccessType::Read,
            });
        }
    }
    let _ = p.train_from_accesses(&ev);
    p
}

pub fn make_strategy(kind: StratKind, cap: usize, n_ids: u64) -> Strat {
    let hot: Vec<u64> = (0..n_ids).filter(|i| i % 2 == 0).collect();
    match kind {
        StratKind::Lru => {
            let s: Arc<dyn CacheStrategy> = Arc::new(LruCacheStrategy::new(cap));
            Strat {
                kind,
                top: s.clone(),
                parts: vec![(s, cap)],
            }
        }
        StratKind::LearnedUntrained => {
            let s: Arc<dyn CacheStrategy> = Arc::new(LearnedCacheStrategy::new(
                cap,
                LearnedCachePredictor::new(cap.max(1)).expect("predictor"),
            ));
            Strat {
                kind,
                top: s.clone(),
                parts: vec![(s, cap)],
            }
        }
        StratKind::LearnedTrained => {
            let s: Arc<dyn CacheStrategy> =
                Arc::new(LearnedCacheStrategy::new(cap, trained_predictor(cap, &hot)));
            Strat {
                kind,
                top: s.clone(),
                parts: vec![(s, cap)],
            }
        }
        StratKind::LearnedSemantic => {
            let s: Arc<dyn CacheStrategy> = Arc::new(LearnedCacheStrategy::new_with_semantic(
                cap,
                trained_predictor(cap, &hot),
                SemanticAdapter::new(),
            ));
            Strat {
                kind,
                top: s.clone(),
                parts: vec![(s, cap)],
            }
        }
        StratKind::Ab => {
            let a: Arc<dyn CacheStrategy> = Arc::new(LruCacheStrategy::new(cap));
            let b: Arc<dyn CacheStrategy> = Arc::new(LearnedCacheStrategy::new(
                cap,
                LearnedCachePredictor::new(cap.max(1)).expect("predictor"),
            ));
            let top: Arc<dyn CacheStrategy> = Arc::new(AbTestSplitter::new(a.clone(), b.clone()));
            Strat {
                kind,
                top,
                parts: vec![(a, cap), (b, cap)],
            }
        }
    }
}

#[derive(Clone, Debug)]
enum Step {
    Op(Op),
    BulkLoad(Vec<(u64, Vec<f32>, Meta)>),
    FlushIfNeeded,
    Search { q: Vec<f32>, k: usize },
    /// plant something in the document cache
    PokeCache { id: u64, kind: u8 },
    /// plant something in the recent-write tier
    PokeHot { id: u64, kind: u8 },
    Sleep,
}

impl Step {
    fn to_json(&self) -> Value {
        match self {
            Step::Op(o) => o.to_json(),
            Step::BulkLoad(d) => json!({"op":"bulk_load","docs": d.iter().map(|(i,v,m)| json!({"id":i,"vec_bits":bits(v),"meta":m})).collect::<Vec<_>>()}),
            Step::FlushIfNeeded => json!({"op":"flush_if_needed"}),
            Step::Search { q, k } => json!({"op":"search","q_bits":bits(q),"k":k}),
            Step::PokeCache { id, kind } => json!({"op":"poke_cache","id":id,"kind":kind}),
            Step::PokeHot { id, kind } => json!({"op":"poke_hot","id":id,"kind":kind}),
            Step::Sleep => json!({"op":"sleep"}),
        }
    }
    fn kind(&self) -> &'static str {
        match self {
            Step::Op(o) => o.kind(),
            Step::BulkLoad(_) => "bulk_load",
            Step::FlushIfNeeded => "flush_if_needed",
            Step::Search { .. } => "search",
            Step::PokeCache { .. } => "poke_cache",
            Step::PokeHot { .. } => "poke_hot",
            Step::Sleep => "sleep",
        }
    }
}

struct Case {
    idx: usize,
    strat: StratKind,
    cache_cap: usize,
    qcache_cap: usize,
    hot_soft: usize,
    hot_hard: usize,
    metric: DistanceMetric,
    dim: usize,
    n_ids: u64,
    persist: bool,
    background: bool,
    /// allow planting mirrors of documents that have no canonical record (known-finding class)
    orphan_pokes: bool,
    pokes: bool,
    len: usize,
    seed: u64,
}

impl Case {
    fn to_json(&self) -> Value {
        json!({"case": self.idx, "strategy": format!("{:?}", self.strat), "cache_cap": self.cache_cap,
            "qcache_cap": self.qcache_cap, "hot_soft": self.hot_soft, "hot_hard": self.hot_hard,
            "metric": metric_name(self.metric), "dim": self.dim, "n_ids": self.n_ids, "persist": self.persist,
            "background": self.background, "orphan_pokes": self.orphan_pokes, "pokes": self.pokes, "len": self.len})
    }
}

fn make_case(seed: u64, idx: usize, orphan_leg: bool, background_leg: bool, thorough: bool) -> Case {
    let mut rng = Rng::derive(seed, idx as u64, 0xC04 + orphan_leg as u64 + 2 * background_leg as u64);
    let strats = [
        StratKind::Lru,
        StratKind::LearnedUntrained,
        StratKind::LearnedTrained,
        StratKind::LearnedSemantic,
        StratKind::Ab,
    ];
    let caps = [1usize, 2, 16];
    // (soft drain threshold, hard limit); the last three have the hard limit BELOW the soft
    // threshold, where only the emergency drain keeps the tier bounded
    let hots = [(1usize, 1usize), (1, 2), (2, 3), (4, 8), (1000, 2000), (10_000, 2), (8, 3), (1000, 1)];
    let (hot_soft, hot_hard) = hots[(idx / 3 + rng.usize_below(8)) % hots.len()];
    Case {
        idx,
        strat: strats[idx % strats.len()],
        cache_cap: caps[(idx / 5 + rng.usize_below(3)) % caps.len()],
        qcache_cap: [1usize, 2, 8][rng.usize_below(3)],
        hot_soft,
        hot_hard,
        metric: metric_from(idx / 2 + rng.usize_below(3)),
        dim: [2usize, 3, 8][rng.usize_below(3)],
        n_ids: rng.range(3, 6),
        persist: idx % 3 == 0,
        background: background_leg,
        orphan_pokes: orphan_leg,
        pokes: orphan_leg || idx % 4 != 1,
        len: if thorough { rng.range(30, 70) as usize } else { rng.range(20, 45) as usize },
        seed: rng.next_u64(),
    }
}

pub fn run(args: &Args, property: &str) -> Out {
    let orphan_leg = args.get("orphans") == Some("1");
    let background_leg = args.get("background") == Some("1");
    let mut out = Out::new(
        property,
        if orphan_leg {
            "reads-orphan-pokes"
        } else if background_leg {
            "reads-background-audit"
        } else {
            "reads-after-every-step"
        },
    );
    if let Some(p) = &args.replay {
        let v: Value = serde_json::from_str(&std::fs::read_to_string(p).expect("replay file")).expect("json");
        let r = &v["replay"];
        run_case(
            r["seed"].as_u64().unwrap_or(1),
            r["case"]["case"].as_u64().unwrap_or(0) as usize,
            r["case"]["orphan_pokes"].as_bool().unwrap_or(false),
            r["case"]["background"].as_bool().unwrap_or(false),
            r["thorough"].as_bool().unwrap_or(false),
            &mut out,
        );
        return out;
    }
    let n = if orphan_leg {
        args.n(8_000, 32_000)
    } else if background_leg {
        args.n(3_200, 12_800)
    } else {
        args.n(32_000, 320_000)
    };
    for idx in 0..n {
        if args.mine(idx) {
            run_case(args.seed, idx, orphan_leg, background_leg, args.thorough, &mut out);
        }
    }
    out
}

fn gen_step(rng: &mut Rng, case: &Case, g: &GenCfg, model: &Model, prev: &std::collections::BTreeMap<u64, Doc>) -> Step {
    let _ = prev;
    let r = rng.below(100);
    let id = rng.below(case.n_ids);
    match r {
        0..=44 => Step::Op(gen_op(rng, g, &model.live())),
        45..=51 => {
            let n = rng.range(1, 3);
            let docs = (0..n)
                .map(|_| (rng.below(case.n_ids), gen_vec(rng, case.dim, case.metric), gen_meta(rng)))
                .collect();
            Step::BulkLoad(docs)
        }
        52..=57 => Step::FlushIfNeeded,
        58..=69 => Step::Search {
            q: gen_vec(rng, case.dim, case.metric),
            k: rng.range(1, 4) as usize,
        },
        70..=83 if case.pokes => Step::PokeCache { id, kind: rng.below(6) as u8 },
        84..=97 if case.pokes => Step::PokeHot { id, kind: rng.below(7) as u8 },
        98..=99 if case.background => Step::Sleep,
        _ => Step::Op(gen_op(rng, g, &model.live())),
    }
}

fn run_case(seed: u64, idx: usize, orphan_leg: bool, background_leg: bool, thorough: bool, out: &mut Out) {
    let case = make_case(seed, idx, orphan_leg, background_leg, thorough);
    let mut rng = Rng::new(case.seed);
    let scratch = Scratch::new("c04");
    let dir = scratch.sub("data");
    let strat = make_strategy(case.strat, case.cache_cap, case.n_ids);
    let qcache = Arc::new(QueryHashCache::new(case.qcache_cap, if idx % 2 == 0 { 1.0 } else { 0.52 }));
    let ecfg = EngCfg {
        dim: case.dim,
        metric: case.metric,
        capacity: 100_000,
        snapshot_interval: if idx % 6 == 0 { 3 } else { 0 },
        max_wal: if idx % 9 == 0 { 256 } else { 100 << 20 },
        fsync: FsyncPolicy::Never,
        tiered: true,
        hot_soft: case.hot_soft,
        hot_hard: case.hot_hard,
    };
    let mut tcfg = ecfg.tiered_config(if case.persist { Some(dir.as_path()) } else { None });
    if case.background {
        tcfg.flush_interval = std::time::Duration::from_millis(1);
        tcfg.hot_tier_max_age = std::time::Duration::from_millis(2);
    }
    let engine = match TieredEngine::new_with_shared_strategy(strat.top.clone(), qcache.clone(), vec![], vec![], tcfg) {
        Ok(e) => Arc::new(e),
        Err(e) => {
            out.violation("create-failed", format!("{:#}", e), case.to_json());
            return;
        }
    };
    let rt = if case.background {
        Some(tokio::runtime::Builder::new_multi_thread().worker_threads(1).enable_all().build().expect("rt"))
    } else {
        None
    };
    let (stx, _srx) = tokio::sync::broadcast::channel::<()>(1);
    let bg = rt.as_ref().map(|rt| {
        let _g = rt.enter();
        engine.clone().spawn_flush_task(stx.subscribe())
    });

    let g = GenCfg {
        n_ids: case.n_ids,
        dim: case.dim,
        metric: case.metric,
        p_snapshot: if case.persist { 0.03 } else { 0.0 },
        p_restart: 0.0,
        p_flush: 0.08,
    };
    let universe: Vec<u64> = (0..case.n_ids).collect();
    let mut model = Model::default();
    // last overwritten / deleted version of each id, for realistic stale pokes
    let mut prev: std::collections::BTreeMap<u64, Doc> = Default::default();
    let mut versions: std::collections::BTreeMap<u64, Vec<Doc>> = Default::default();
    let mut history: Vec<Value> = Vec::new();
    let mut kinds = std::collections::BTreeSet::new();
    // ids for which the harness planted a mirror without canonical record (orphan leg only)
    let mut planted: std::collections::BTreeSet<u64> = Default::default();
    let mut reads = 0u64;
    let mut max_hot = 0usize;
    let mut max_cache = 0usize;
    let mut max_q = 0usize;
    let property = out.property.clone();
    let is_c20 = property == "C20";

    macro_rules! viol {
        ($sig:expr, $($fmt:tt)*) => {{
            out.violation($sig, format!($($fmt)*), json!({"check": property, "seed": seed, "thorough": thorough, "case": case.to_json(), "history": history}));
            if let Some(h) = bg { let _ = stx.send(()); if let Some(rt) = &rt { let _ = rt.block_on(h); } }
            return;
        }};
    }

    for step_no in 0..case.len {
        // every version the model ever held, per id (the background drain race can resurrect ANY earlier
        // version that was still mirrored when the drain started, not only the last one)
        for (id, d) in model.docs.iter() {
            let v = versions.entry(*id).or_default();
            if v.last() != Some(d) {
                v.push(d.clone());
            }
        }
        let step = gen_step(&mut rng, &case, &g, &model, &prev);
        history.push(step.to_json());
        kinds.insert(step.kind());
        let mut insert_returned = false;
        match &step {
            Step::Op(Op::Insert { id, vec, meta }) => {
                let r = engine.insert(*id, vec.clone(), to_hm(meta));
                insert_returned = true;
                match r {
                    Ok(()) => match engine.cold_tier().fetch_document(*id) {
                        Some(stored) if stored_is_plausible(case.metric, vec, &stored) => {
                            if let Some(old) = model.docs.get(id) {
                                prev.insert(*id, old.clone());
                            }
                            planted.remove(id);
                            model.apply_insert(*id, bits(&stored), meta.clone());
                        }
                        other => viol!("ack-readback", "step {}: acked insert {} reads back {:?}", step_no, id, other),
                    },
                    Err(e) => {
                        out.count("rejected_ops", 1);
                        out.note(format!("insert rejected: {:#}", e).chars().take(160).collect::<String>());
                    }
                }
            }
            Step::Op(Op::Delete { id }) => match engine.delete(*id) {
                Ok(_) => {
                    if let Some(old) = model.docs.get(id) {
                        prev.insert(*id, old.clone());
                    }
                    planted.remove(id);
                    model.apply_delete(*id);
                }
                Err(_) => out.count("rejected_ops", 1),
            },
            Step::Op(Op::BatchDelete { ids }) => match engine.batch_delete(ids) {
                Ok(_) => {
                    for id in ids {
                        if let Some(old) = model.docs.get(id) {
                            prev.insert(*id, old.clone());
                        }
                        planted.remove(id);
                        model.apply_delete(*id);
                    }
                }
                Err(_) => out.count("rejected_ops", 1),
            },
            Step::Op(Op::UpdateMeta { id, meta, merge }) => match engine.update_metadata(*id, to_hm(meta), *merge) {
                Ok(existed) => {
                    let m = model.apply_update(*id, meta, *merge);
                    if existed != m && !case.orphan_pokes {
                        // background leg: the drain repair race may have resurrected a deleted document
                        // (known-finding class): the engine then legitimately reports that it existed
                        if case.background && existed && !m && versions.contains_key(id) {
                            viol!("background-drain-repair-resurrects-concurrently-deleted", "step {}: update_metadata({}) found a document that the model had deleted (resurrected by the background drain's repair branch)", step_no, id);
                        }
                        viol!("update-result", "step {}: update_metadata({}) returned {} model {}", step_no, id, existed, m);
                    }
                }
                Err(_) => out.count("rejected_ops", 1),
            },
            Step::Op(Op::Snapshot) => {
                if case.persist {
                    if let Err(e) = engine.cold_tier().create_snapshot() {
                        viol!("snapshot-failed", "step {}: {:#}", step_no, e);
                    }
                }
            }
            Step::Op(Op::Flush) => {
                if let Err(e) = engine.flush_hot_tier(true) {
                    viol!("flush-failed", "step {}: forced drain failed: {:#}", step_no, e);
                }
            }
            Step::Op(Op::Restart) => {}
            Step::FlushIfNeeded => {
                if let Err(e) = engine.flush_hot_tier(false) {
                    viol!("flush-failed", "step {}: threshold drain failed: {:#}", step_no, e);
                }
            }
            Step::BulkLoad(docs) => match engine.bulk_load_cold_tier(docs.iter().map(|(i, v, m)| (*i, v.clone(), to_hm(m))).collect()) {
                Ok((loaded, failed, _, _)) => {
                    if failed != 0 || loaded != docs.len() as u64 {
                        out.inconclusive(format!("bulk load of valid documents reported loaded={} failed={}", loaded, failed));
                        break;
                    }
                    for (i, (id, vec, meta)) in docs.iter().enumerate() {
                        // only the last occurrence of an id in the batch is observable afterwards
                        let last = docs.iter().rposition(|d| d.0 == *id) == Some(i);
                        if !last {
                            continue;
                        }
                        match engine.cold_tier().fetch_document(*id) {
                            Some(stored) if stored_is_plausible(case.metric, vec, &stored) => {
                                if let Some(old) = model.docs.get(id) {
                                    prev.insert(*id, old.clone());
                                }
                                planted.remove(id);
                                model.apply_insert(*id, bits(&stored), meta.clone());
                            }
                            other => viol!("ack-readback", "step {}: bulk-loaded {} reads back {:?}", step_no, id, other),
                        }
                    }
                }
                Err(e) => viol!("bulk-load-failed", "step {}: {:#}", step_no, e),
            },
            Step::Search { q, k } => {
                let _ = engine.knn_search(q, *k);
            }
            Step::PokeCache { id, kind } => {
                let canon = engine.cold_tier().fetch_document_with_coherence(*id);
                let other_id = (*id + 1) % case.n_ids;
                let other = engine.cold_tier().fetch_document_with_coherence(other_id);
                let wrong = gen_vec(&mut rng, case.dim, case.metric);
                let entry: Option<(Vec<f32>, VectorCoherenceToken)> = match (kind, &canon) {
                    // right token, wrong payload
                    (0, Some((_, tok))) => Some((wrong, *tok)),
                    // wrong token (future version), right payload
                    (1, Some((v, tok))) => Some((v.clone(), VectorCoherenceToken::new(tok.version + 1, tok.digest))),
                    // another document's self-consistent entry
                    (2, _) => other.clone(),
                    // previous version, self-consistent (what a missed invalidation would leave)
                    (3, _) => prev.get(id).map(|d| {
                        let v = unbits(&d.bits);
                        let ver = canon.as_ref().map(|c| c.1.version.saturating_sub(1)).unwrap_or(1).max(1);
                        let t = VectorCoherenceToken::new(ver, digest_embedding(&v));
                        (v, t)
                    }),
                    // self-consistent random vector carrying the canonical version number
                    (4, Some((_, tok))) => Some((wrong.clone(), VectorCoherenceToken::new(tok.version, digest_embedding(&wrong)))),
                    // entry for an id with no canonical record (deleted / never written)
                    (5, None) => Some((wrong.clone(), VectorCoherenceToken::new(1, digest_embedding(&wrong)))),
                    _ => None,
                };
                if let Some((v, tok)) = entry {
                    strat.top.insert_cached(CachedVector {
                        doc_id: *id,
                        embedding: v,
                        coherence: tok,
                        distance: 0.0,
                        cached_at: Instant::now(),
                    });
                    out.count("pokes_applied", 1);
                }
            }
            Step::PokeHot { id, kind } => {
                let canon = engine.cold_tier().fetch_document_with_coherence(*id);
                let cmeta = engine.cold_tier().fetch_metadata(*id);
                let other_id = (*id + 1) % case.n_ids;
                let other = engine.cold_tier().fetch_document_with_coherence(other_id);
                let wrong = gen_vec(&mut rng, case.dim, case.metric);
                let stale_meta = to_hm(&gen_meta(&mut rng));
                let good_meta = cmeta.clone().unwrap_or_default();
                let entry: Option<(Vec<f32>, std::collections::HashMap<String, String>, VectorCoherenceToken)> = match (kind, &canon) {
                    (0, Some((_, tok))) => Some((wrong, good_meta, *tok)),
                    (1, Some((v, tok))) => Some((v.clone(), good_meta, VectorCoherenceToken::new(tok.version + 1, tok.digest))),
                    (2, Some(_)) => other.clone().map(|(v, t)| (v, stale_meta, t)),
                    (3, Some(_)) => prev.get(id).map(|d| {
                        let v = unbits(&d.bits);
                        let ver = canon.as_ref().map(|c| c.1.version.saturating_sub(1)).unwrap_or(1).max(1);
                        let t = VectorCoherenceToken::new(ver, digest_embedding(&v));
                        (v, to_hm(&d.meta), t)
                    }),
                    // right vector and token, stale metadata
                    (4, Some((v, tok))) => Some((v.clone(), stale_meta, *tok)),
                    // mirror of a document without canonical record (deleted or never written):
                    // only in the orphan leg (the drain's repair branch re-inserts these by design)
                    (5, None) if case.orphan_pokes => Some((wrong.clone(), stale_meta, VectorCoherenceToken::new(1, digest_embedding(&wrong)))),
                    (6, None) if case.orphan_pokes => prev.get(id).map(|d| {
                        let v = unbits(&d.bits);
                        let t = VectorCoherenceToken::new(1, digest_embedding(&v));
                        (v, to_hm(&d.meta), t)
                    }),
                    _ => None,
                };
                if let Some((v, m, tok)) = entry {
                    if canon.is_none() {
                        planted.insert(*id);
                        out.count("orphan_mirrors_planted", 1);
                    }
                    engine.hot_tier().insert_with_coherence(*id, v, m, tok);
                    out.count("pokes_applied", 1);
                }
            }
            Step::Sleep => std::thread::sleep(std::time::Duration::from_millis(4)),
        }

        // ---- C20 monitors: sizes after every operation
        for (part, cap) in &strat.parts {
            let s = part.size();
            max_cache = max_cache.max(s);
            if s > *cap {
                viol!("doc-cache-over-capacity", "step {}: document cache ({}) holds {} entries, capacity {}", step_no, part.name(), s, cap);
            }
        }
        let ql = qcache.len();
        max_q = max_q.max(ql);
        if ql > case.qcache_cap {
            viol!("query-cache-over-capacity", "step {}: query cache holds {} entries, capacity {}", step_no, ql, case.qcache_cap);
        }
        if insert_returned {
            let hl = engine.hot_tier().len();
            max_hot = max_hot.max(hl);
            if hl > case.hot_hard {
                viol!("hot-tier-over-hard-limit", "step {}: recent-write tier holds {} documents after insert returned, hard limit {}", step_no, hl, case.hot_hard);
            }
        }

        // ---- C04 monitors: every read flavour over the whole universe. The ORDER of the flavours
        // rotates with the step and the id: each flavour validates (and scrubs) planted entries
        // itself, so a fixed order would let the first flavour hide a gap in the others.
        for (i, id) in universe.iter().enumerate() {
            let exp = model.docs.get(id);
            let exp_bits = exp.map(|d| d.bits.clone());
            let exp_meta = exp.map(|d| d.meta.clone());
            let rot = (step_no as usize + i + idx) % 8;
            let mut checks: Vec<(&str, bool, String)> = Vec::with_capacity(8);
            for k in 0..8usize {
                let c: (&str, bool, String) = match (k + rot) % 8 {
                    0 => {
                        let r = engine.query(*id, None);
                        ("query", r.as_ref().map(|v| bits(v)) == exp_bits, format!("{:?}", r))
                    }
                    1 => {
                        let r = engine.query_with_source(*id, None);
                        ("query_with_source", r.as_ref().map(|v| bits(&v.0)) == exp_bits, format!("{:?}", r))
                    }
                    2 => {
                        let r = engine.get_document_with_metadata(*id);
                        (
                            "get_document_with_metadata",
                            r.as_ref().map(|v| (bits(&v.0), from_hm(&v.1))) == exp.map(|d| (d.bits.clone(), d.meta.clone())),
                            format!("{:?}", r),
                        )
                    }
                    3 => {
                        let r = engine.get_embedding_cache_aware(*id);
                        ("get_embedding_cache_aware", r.as_ref().map(|v| bits(v)) == exp_bits, format!("{:?}", r))
                    }
                    4 => {
                        let r = engine.get_metadata(*id);
                        ("get_metadata", r.as_ref().map(from_hm) == exp_meta, format!("{:?}", r))
                    }
                    5 => {
                        let r = engine.exists(*id);
                        ("exists", r == exp.is_some(), format!("{:?}", r))
                    }
                    6 => {
                        // bulk read of this id together with its neighbours (order matters for result assembly)
                        let ids = [*id, (*id + 1) % case.n_ids, (*id + case.n_ids - 1) % case.n_ids];
                        let r = engine.bulk_query(&ids, true).into_iter().next().flatten();
                        (
                            "bulk_query(embeddings)",
                            r.as_ref().map(|v| (bits(&v.0), from_hm(&v.1))) == exp.map(|d| (d.bits.clone(), d.meta.clone())),
                            format!("{:?}", r),
                        )
                    }
                    _ => {
                        let r = engine.bulk_query(&[*id], false).into_iter().next().flatten();
                        (
                            "bulk_query(no embeddings)",
                            r.as_ref().map(|v| (v.0.is_empty(), from_hm(&v.1))) == exp_meta.clone().map(|m| (true, m)),
                            format!("{:?}", r),
                        )
                    }
                };
                checks.push(c);
            }
            reads += checks.len() as u64;
            for (name, ok, got) in checks {
                if !ok {
                    // background leg: the drain's repair branch racing with a delete re-inserts the
                    // just-deleted version (same root cause as the orphan-mirror finding)
                    // background leg: a document that the model deleted is readable again. Whatever content
                    // the mirror held when the drain started (an earlier version, or a planted entry) is what
                    // the drain's repair branch re-inserts, so the class is decided by the effect alone: the id
                    // had existed and is now canonical again although deleted.
                    let resurrected_prev = case.background && exp.is_none() && versions.contains_key(id) && engine.cold_tier().fetch_document(*id).is_some();
                    let sig = if case.orphan_pokes && planted.contains(id) && exp.is_none() {
                        "drain-repair-resurrects-orphan-mirror".to_string()
                    } else if resurrected_prev {
                        "background-drain-repair-resurrects-concurrently-deleted".to_string()
                    } else {
                        format!("read-mismatch|{}", name)
                    };
                    if is_c20 && !resurrected_prev {
                        // C20's content clause: evicted / drained documents stay readable with the same content
                        viol!(format!("content|{}", name), "step {} ({}): {}({}) = {}, model = {:?}", step_no, step.kind(), name, id, got, exp.map(|d| (unbits(&d.bits), d.meta.clone())));
                    }
                    viol!(sig, "step {} ({}): {}({}) = {}, model = {:?}", step_no, step.kind(), name, id, got, exp.map(|d| (unbits(&d.bits), d.meta.clone())));
                }
            }
        }
        // a drain must not change what is durable
        if case.persist && matches!(step, Step::Op(Op::Flush) | Step::FlushIfNeeded) && !case.background {
            let copy = scratch.sub(&format!("copy{}", step_no));
            if copy_dir(&dir, &copy).is_ok() {
                match recover_backend(&ecfg, &copy) {
                    Ok(b) => {
                        let rec = census_backend(&b, &universe);
                        let d = diff_models(&model, &rec);
                        if !d.is_empty() {
                            let only_planted = case.orphan_pokes
                                && rec.docs.keys().filter(|k| !model.docs.contains_key(k)).all(|k| planted.contains(k))
                                && model.docs.iter().all(|(k, d)| rec.docs.get(k) == Some(d));
                            let sig = if only_planted { "drain-repair-resurrects-orphan-mirror" } else { "durable-after-drain" };
                            viol!(sig, "step {}: collection recovered from a copy of the directory after a drain differs from the model: {:?}", step_no, d);
                        }
                        out.count("recoveries", 1);
                    }
                    Err(e) => viol!("recover-failed", "step {}: recovery of a copy failed: {:#}", step_no, e),
                }
                let _ = std::fs::remove_dir_all(&copy);
            }
        }
    }
    if let Some(h) = bg {
        let _ = stx.send(());
        if let Some(rt) = &rt {
            let _ = rt.block_on(h);
        }
    }
    out.eval();
    out.count("steps", history.len() as u64);
    out.count("reads_compared", reads);
    out.set_max("max_hot_tier_len", max_hot as u64);
    out.set_max("max_doc_cache_len", max_cache as u64);
    out.set_max("max_query_cache_len", max_q as u64);
    if kinds.len() >= 4 {
        out.distinct(&(case.to_json().to_string(), history.iter().map(|h| h.to_string()).collect::<Vec<_>>()));
    }
    if idx % 499 == 0 {
        out.sample(json!({"case": case.to_json(), "steps": history.iter().take(8).collect::<Vec<_>>(), "final_docs": model.docs.len()}));
    }
}
