//! C05 per-document operations are linearizable under concurrency.
//!
//! Call/return events are recorded at the TieredEngine API boundary (call stamped before invoking,
//! return after), every write carries a unique id encoded in the vector AND in the metadata, and
//! each key's sub-history is checked against a sequential register-with-delete model by a
//! Wing-Gong search (P-compositionality). Schedules: directed single-pause sweeps at lock events,
//! double pauses, and seeded jitter on free-running threads.

use crate::sched;
use crate::util::*;
use kyrodb_engine::config::DistanceMetric;
use kyrodb_engine::persistence::FsyncPolicy;
use kyrodb_engine::{LruCacheStrategy, QueryHashCache, TieredEngine};
use serde_json::{json, Value};
use std::collections::{BTreeMap, HashMap, HashSet};
use std::sync::atomic::{AtomicU64, Ordering};
use std::sync::{Arc, Mutex};
use std::time::Duration;

#[derive(Clone, Debug)]
pub enum OpK {
    /// write with unique id w
    Write(u64),
    Delete,
    /// observed value: None = not found, Some((vector write id, metadata write id))
    Read(Option<(u64, Option<u64>)>),
}

#[derive(Clone, Debug)]
pub struct Ev {
    pub thread: usize,
    pub key: u64,
    pub op: OpK,
    pub flavour: &'static str,
    pub call: u64,
    /// u64::MAX = did not return / returned an error (may or may not have taken effect)
    pub ret: u64,
    pub ok: bool,
    /// an effect that may or may not have happened, but if it did, inside [call, ret]
    pub optional: bool,
}

impl Ev {
    fn to_json(&self) -> Value {
        json!({"t": self.thread, "key": self.key, "op": format!("{:?}", self.op), "flavour": self.flavour, "call": self.call, "ret": if self.ret == u64::MAX { Value::Null } else { json!(self.ret) }, "ok": self.ok})
    }
}

/// Wing-Gong linearizability search for one key. Returns true iff linearizable.
pub fn linearizable(evs: &[Ev]) -> bool {
    let n = evs.len();
    if n > 24 {
        return true; // out of budget: treated as inconclusive by the caller
    }
    // state: None or Some(w)
    let mut seen: HashSet<(u32, Option<u64>)> = HashSet::new();
    fn go(evs: &[Ev], done: u32, state: Option<u64>, seen: &mut HashSet<(u32, Option<u64>)>) -> bool {
        let n = evs.len();
        // finished when every op that returned OK has been linearized (open ops may be skipped)
        if (0..n).all(|i| done & (1 << i) != 0 || evs[i].ret == u64::MAX || evs[i].optional) {
            return true;
        }
        if !seen.insert((done, state)) {
            return false;
        }
        // minimal return among pending (not yet linearized) completed ops
        // (optional effects never force anything to happen before them, but are themselves bounded by their interval)
        let min_ret = (0..n).filter(|i| done & (1 << i) == 0 && !evs[*i].optional).map(|i| evs[i].ret).min().unwrap_or(u64::MAX);
        for i in 0..n {
            if done & (1 << i) != 0 {
                continue;
            }
            // i can be linearized next only if it was called before every pending op returned
            if evs[i].call > min_ret {
                continue;
            }
            if evs[i].optional {
                // may only take effect before its own interval ends: every completed op that was called
                // after that end must still be pending
                let end = evs[i].ret;
                if (0..n).any(|j| done & (1 << j) != 0 && !evs[j].optional && evs[j].call > end) {
                    continue;
                }
            }
            let next = match &evs[i].op {
                OpK::Write(w) => Some(Some(*w)),
                OpK::Delete => Some(None),
                OpK::Read(obs) => {
                    let v = obs.map(|(wv, _)| wv);
                    if evs[i].ret == u64::MAX || v == state {
                        Some(state)
                    } else {
                        None
                    }
                }
            };
            if let Some(ns) = next {
                if go(evs, done | (1 << i), ns, seen) {
                    return true;
                }
            }
        }
        false
    }
    go(evs, 0, None, &mut seen)
}

fn wvec(w: u64) -> Vec<f32> {
    // Euclidean: stored bits equal the input, the write id is recoverable from lane 0
    vec![w as f32, 1.0, (w % 7) as f32, 0.5]
}
fn wmeta(w: u64) -> HashMap<String, String> {
    let mut m = HashMap::new();
    m.insert("w".to_string(), w.to_string());
    m
}
fn decode_v(v: &[f32]) -> u64 {
    v.first().map(|x| *x as u64).unwrap_or(u64::MAX)
}
fn decode_m(m: &HashMap<String, String>) -> Option<u64> {
    m.get("w").and_then(|s| s.parse().ok())
}

#[derive(Clone, Debug)]
enum PStep {
    Write(u64),
    Delete(u64),
    Query(u64),
    QueryWithSource(u64),
    WithMeta(u64),
    Bulk,
    CacheAware(u64),
}

struct Shared {
    engine: Arc<TieredEngine>,
    clock: AtomicU64,
    log: Mutex<Vec<Ev>>,
    next_w: AtomicU64,
    nkeys: u64,
}

fn exec(sh: &Shared, thread: usize, step: &PStep) {
    let e = &sh.engine;
    let rec = |key: u64, op: OpK, flavour: &'static str, call: u64, ok: bool| {
        let ret = if ok { sh.clock.fetch_add(1, Ordering::SeqCst) } else { u64::MAX };
        sh.log.lock().unwrap().push(Ev { thread, key, op, flavour, call, ret, ok, optional: false });
    };
    match step {
        PStep::Write(k) => {
            let w = sh.next_w.fetch_add(1, Ordering::SeqCst);
            let call = sh.clock.fetch_add(1, Ordering::SeqCst);
            let ok = e.insert(*k, wvec(w), wmeta(w)).is_ok();
            rec(*k, OpK::Write(w), "insert", call, ok);
        }
        PStep::Delete(k) => {
            let call = sh.clock.fetch_add(1, Ordering::SeqCst);
            let ok = e.delete(*k).is_ok();
            rec(*k, OpK::Delete, "delete", call, ok);
        }
        PStep::Query(k) => {
            let call = sh.clock.fetch_add(1, Ordering::SeqCst);
            let r = e.query(*k, None);
            rec(*k, OpK::Read(r.map(|v| (decode_v(&v), None))), "query", call, true);
        }
        PStep::QueryWithSource(k) => {
            let call = sh.clock.fetch_add(1, Ordering::SeqCst);
            let r = e.query_with_source(*k, None);
            rec(*k, OpK::Read(r.map(|(v, _)| (decode_v(&v), None))), "query_with_source", call, true);
        }
        PStep::CacheAware(k) => {
            let call = sh.clock.fetch_add(1, Ordering::SeqCst);
            let r = e.get_embedding_cache_aware(*k);
            rec(*k, OpK::Read(r.map(|v| (decode_v(&v), None))), "get_embedding_cache_aware", call, true);
        }
        PStep::WithMeta(k) => {
            let call = sh.clock.fetch_add(1, Ordering::SeqCst);
            let r = e.get_document_with_metadata(*k);
            rec(*k, OpK::Read(r.map(|(v, m)| (decode_v(&v), decode_m(&m)))), "get_document_with_metadata", call, true);
        }
        PStep::Bulk => {
            let ids: Vec<u64> = (0..sh.nkeys).collect();
            let call = sh.clock.fetch_add(1, Ordering::SeqCst);
            let r = e.bulk_query(&ids, true);
            let ret = sh.clock.fetch_add(1, Ordering::SeqCst);
            let mut log = sh.log.lock().unwrap();
            for (i, x) in r.into_iter().enumerate() {
                log.push(Ev {
                    thread,
                    key: ids[i],
                    op: OpK::Read(x.map(|(v, m)| (decode_v(&v), decode_m(&m)))),
                    flavour: "bulk_query",
                    call,
                    ret,
                    ok: true,
                    optional: false,
                });
            }
        }
    }
}

fn gen_program(rng: &mut Rng, nkeys: u64, len: usize) -> Vec<PStep> {
    (0..len)
        .map(|_| {
            let k = rng.below(nkeys);
            match rng.below(100) {
                0..=34 => PStep::Write(k),
                35..=49 => PStep::Delete(k),
                50..=59 => PStep::Query(k),
                60..=66 => PStep::QueryWithSource(k),
                67..=84 => PStep::WithMeta(k),
                85..=92 => PStep::Bulk,
                _ => PStep::CacheAware(k),
            }
        })
        .collect()
}

pub fn run(args: &Args) -> Out {
    let mut out = Out::new("C05", "linearizability");
    sched::install();
    let only: Option<usize> = args.replay.as_ref().and_then(|p| {
        let v: Value = serde_json::from_str(&std::fs::read_to_string(p).ok()?).ok()?;
        v["replay"]["case"].as_u64().map(|x| x as usize)
    });
    let n = args.n(96_000, 1_600_000);
    for idx in 0..n {
        if let Some(o) = only {
            if o != idx {
                continue;
            }
        } else if !args.mine(idx) {
            continue;
        }
        run_case(args.seed, idx, &mut out);
    }
    out.count("lock_events", sched::lock_events());
    out.count("pauses_taken", sched::pauses_taken());
    out
}

fn run_case(seed: u64, idx: usize, out: &mut Out) {
    let mut rng = Rng::derive(seed, idx as u64, 0xC05);
    let nkeys = rng.range(1, 2);
    let nthreads = rng.range(2, 3) as usize;
    let persist = idx % 5 == 0;
    let scratch = Scratch::new("c05");
    let cfg = crate::model::EngCfg {
        dim: 4,
        metric: DistanceMetric::Euclidean,
        capacity: 10_000,
        snapshot_interval: 0,
        max_wal: 1 << 20,
        fsync: FsyncPolicy::Never,
        tiered: true,
        hot_soft: *rng.pick(&[1usize, 2, 100]),
        hot_hard: *rng.pick(&[2usize, 200]),
    };
    let dir = scratch.sub("data");
    let engine = match TieredEngine::new(
        Box::new(LruCacheStrategy::new(*rng.pick(&[1usize, 4]))),
        Arc::new(QueryHashCache::new(4, 1.0)),
        vec![],
        vec![],
        cfg.tiered_config(if persist { Some(dir.as_path()) } else { None }),
    ) {
        Ok(e) => Arc::new(e),
        Err(_) => return,
    };
    let sh = Arc::new(Shared { engine, clock: AtomicU64::new(1), log: Mutex::new(Vec::new()), next_w: AtomicU64::new(1), nkeys });
    // a sequential prefix so that caches / mirrors are populated
    for k in 0..nkeys {
        if rng.chance(0.7) {
            exec(&sh, 99, &PStep::Write(k));
            if rng.chance(0.5) {
                exec(&sh, 99, &PStep::Query(k));
            }
            if rng.chance(0.3) {
                let _ = sh.engine.flush_hot_tier(true);
            }
        }
    }
    let programs: Vec<Vec<PStep>> = (0..nthreads).map(|_| { let len = rng.range(2, 4) as usize; gen_program(&mut rng, nkeys, len) }).collect();
    // schedule: 0 = single pause, 1 = double pause, 2 = jitter
    let mode = idx % 3;
    let pause_thread = rng.usize_below(nthreads);
    let pause_event = 1 + rng.usize_below(60);
    let p1 = sched::Pause { thread: pause_thread, event: pause_event, max_ms: 20 };
    let p2 = sched::Pause { thread: (pause_thread + 1) % nthreads, event: 1 + rng.usize_below(60), max_ms: 20 };
    match mode {
        0 => sched::set_pause(Some(p1), None),
        1 => sched::set_pause(Some(p1), Some(p2)),
        _ => sched::set_jitter(400, rng.next_u64()),
    }
    let labels: Vec<String> = (0..nthreads).map(|t| format!("client{}", t)).collect();
    let bodies: Vec<Box<dyn FnOnce() + Send + 'static>> = programs
        .iter()
        .enumerate()
        .map(|(t, prog)| {
            let sh = sh.clone();
            let prog = prog.clone();
            Box::new(move || {
                for s in &prog {
                    exec(&sh, t, s);
                }
            }) as Box<dyn FnOnce() + Send + 'static>
        })
        .collect();
    let r = sched::run_threads(&labels, bodies, Duration::from_secs(30));
    sched::set_jitter(0, 1);
    sched::clear_graph();
    let mode_name = ["single-pause", "double-pause", "jitter"][mode];
    let desc = json!({"check":"C05","seed":seed,"case":idx,"mode":mode_name,"pause":{"thread":pause_thread,"event":pause_event},
        "programs": programs.iter().map(|p| p.iter().map(|s| format!("{:?}", s)).collect::<Vec<_>>()).collect::<Vec<_>>() });
    if !r.completed {
        // a deadlock is C08's verdict; here the history is simply unusable
        out.inconclusive(format!("case {} did not complete (deadlock reported: {})", idx, r.deadlock.is_some()));
        std::mem::forget(sh);
        return;
    }
    let log = sh.log.lock().unwrap().clone();
    out.eval();
    out.count("ops_recorded", log.len() as u64);
    // torn reads first: vector and metadata of one read must belong to the same write
    for e in &log {
        if let OpK::Read(Some((wv, Some(wm)))) = &e.op {
            if wv != wm {
                out.violation(
                    format!("torn-read|{}", e.flavour),
                    format!("case {}: {} of key {} returned the vector of write {} together with the metadata of write {}", idx, e.flavour, e.key, wv, wm),
                    json!({"schedule": desc, "history": log.iter().map(|e| e.to_json()).collect::<Vec<_>>()}),
                );
                return;
            }
        }
    }
    // values never written
    let written: HashSet<u64> = log.iter().filter_map(|e| if let OpK::Write(w) = e.op { Some(w) } else { None }).collect();
    for e in &log {
        if let OpK::Read(Some((wv, _))) = &e.op {
            if !written.contains(wv) {
                out.violation(
                    format!("read-of-unwritten-value|{}", e.flavour),
                    format!("case {}: {} of key {} returned a vector that was never written (decoded id {})", idx, e.flavour, e.key, wv),
                    json!({"schedule": desc, "history": log.iter().map(|e| e.to_json()).collect::<Vec<_>>()}),
                );
                return;
            }
        }
    }
    let mut per_key: BTreeMap<u64, Vec<Ev>> = BTreeMap::new();
    for e in &log {
        per_key.entry(e.key).or_default().push(e.clone());
    }
    let mut outcome_sig = Vec::new();
    for (k, evs) in &per_key {
        if evs.len() > 24 {
            out.inconclusive("per-key history too long for the checker budget");
            continue;
        }
        out.count("keys_checked", 1);
        if !linearizable(evs) {
            // Known-finding classification: an emergency drain inside a concurrent insert re-inserts
            // (repairs) a just-deleted version. Only where such drains can happen (hard limit <= 2) the
            // history is re-checked with optional re-writes of stale-read values confined to the
            // interval of an overlapping insert call.
            if cfg.hot_hard <= 2 {
                let stale: std::collections::BTreeSet<u64> = evs.iter().filter_map(|e| if let OpK::Read(Some((w, _))) = e.op { Some(w) } else { None }).collect();
                let mut relaxed = evs.clone();
                for ins in log.iter().filter(|e| matches!(e.op, OpK::Write(_)) && e.thread != 99) {
                    for w in &stale {
                        if relaxed.len() < 22 {
                            relaxed.push(Ev { thread: ins.thread, key: *k, op: OpK::Write(*w), flavour: "phantom-repair", call: ins.call, ret: ins.ret, ok: true, optional: true });
                        }
                    }
                }
                if relaxed.len() > evs.len() && linearizable(&relaxed) {
                    out.violation(
                        "not-linearizable|explained-by-emergency-drain-repair-resurrection",
                        format!("case {}: the history of key {} is only explained if an emergency drain inside a concurrent insert re-inserted a deleted version: {:?}", idx, k, evs.iter().map(|e| e.to_json().to_string()).collect::<Vec<_>>()),
                        json!({"schedule": desc, "history": log.iter().map(|e| e.to_json()).collect::<Vec<_>>()}),
                    );
                    return;
                }
            }
            // Second chance for the same known-finding class, by pattern (the phantom search above is
            // capped): a read that BEGAN after a delete had completed returns a version whose write began
            // before that delete returned, while an insert of any key (whose emergency drain does the repair)
            // overlaps the window [delete call, read return]. If the history without such reads is
            // linearizable, the resurrection is the only anomaly.
            if cfg.hot_hard <= 2 {
                let inserts: Vec<&Ev> = log.iter().filter(|e| matches!(e.op, OpK::Write(_)) && e.thread != 99).collect();
                let explained = |r: &Ev| -> bool {
                    let OpK::Read(Some((w, _))) = r.op else { return false };
                    let Some(wr) = evs.iter().find(|e| matches!(e.op, OpK::Write(x) if x == w)) else { return false };
                    evs.iter().any(|d| {
                        // the version could have been current when the delete took effect (its write began
                        // before the delete returned); the repair may land after a LATER acknowledged write too
                        matches!(d.op, OpK::Delete) && d.ok && d.ret < r.call && wr.call < d.ret && inserts.iter().any(|i| i.call < r.ret && i.ret > d.call)
                    })
                };
                let rest: Vec<Ev> = evs.iter().filter(|e| !explained(e)).cloned().collect();
                if rest.len() < evs.len() && linearizable(&rest) {
                    out.violation(
                        "not-linearizable|explained-by-emergency-drain-repair-resurrection",
                        format!("case {}: the history of key {} is linearizable except for read(s) of a version that a completed delete had removed, overlapped by an insert (emergency drain repair): {:?}", idx, k, evs.iter().map(|e| e.to_json().to_string()).collect::<Vec<_>>()),
                        json!({"schedule": desc, "history": log.iter().map(|e| e.to_json()).collect::<Vec<_>>()}),
                    );
                    return;
                }
            }
            let flavours: std::collections::BTreeSet<&str> = evs.iter().filter(|e| matches!(e.op, OpK::Read(_))).map(|e| e.flavour).collect();
            out.violation(
                format!("not-linearizable|reads={}", flavours.into_iter().collect::<Vec<_>>().join(",")),
                format!("case {}: the history of key {} has no linearization: {:?}", idx, k, evs.iter().map(|e| e.to_json().to_string()).collect::<Vec<_>>()),
                json!({"schedule": desc, "history": log.iter().map(|e| e.to_json()).collect::<Vec<_>>()}),
            );
            return;
        }
        outcome_sig.push(evs.iter().map(|e| format!("{:?}", e.op)).collect::<Vec<_>>());
    }
    // distinct = distinct (programs, observed per-key outcomes)
    out.distinct(&(desc["programs"].to_string(), format!("{:?}", outcome_sig)));
    if idx % 997 == 0 {
        out.sample(json!({"schedule": desc, "history": log.iter().map(|e| e.to_json()).collect::<Vec<_>>()}));
    }
}

// ------------------------------------------------------------------------------------------
// server leg: the same clauses through the real binary's Query / BulkQuery RPCs
// ------------------------------------------------------------------------------------------

#[derive(Clone, Copy, Debug, PartialEq)]
enum St {
    Absent,
    Present(u64),
}

/// One writer per id (so the version order is the writer's program order), several readers on
/// other connections. Every write carries a unique id both in the vector (lane 0) and in the
/// metadata ("w"). Monitors: vector and metadata of one read belong to the same write; a read
/// returns the state left by the last write completed before it began or by a write overlapping it.
pub fn run_server(args: &Args) -> Out {
    use crate::srv::*;
    use std::collections::HashMap;
    use std::sync::atomic::{AtomicBool, Ordering};
    use std::sync::{Arc, Mutex};
    use std::time::Instant;
    let mut out = Out::new("C05", "server-reads");
    let Some(bin) = args.get("server").map(|s| s.to_string()) else {
        out.note("no server binary");
        return out;
    };
    let rt = new_rt();
    for idx in 0..args.n(16, 160) {
        if !args.mine(idx) {
            continue;
        }
        let mut rng = Rng::derive(args.seed, idx as u64, 0xC05_5);
        let cfg = SrvCfg {
            dim: 4,
            distance: "euclidean",
            tenants: vec![TenantSpec { id: "solo".into(), max_vectors: 100_000, max_qps: 0, enabled: true, admin: false }],
            fsync: "data_only",
            cache_capacity: *rng.pick(&[1usize, 4, 64]),
            ..Default::default()
        };
        let desc = json!({"check":"C05","leg":"server-reads","seed":args.seed,"case":idx,"cache_capacity":cfg.cache_capacity});
        let mut srv = Srv::new(cfg, &bin, rt.clone());
        if let Err(e) = srv.start() {
            out.inconclusive(format!("server start failed: {}", e));
            continue;
        }
        let nids = rng.range(1, 2);
        let writes_per_id = if args.thorough { 600 } else { 250 };
        let readers = rng.range(2, 4) as usize;
        let t0 = Instant::now();
        // per id: log of (call_ns, ret_ns, state after the op)
        let logs: Arc<Vec<Mutex<Vec<(u128, u128, St)>>>> = Arc::new((0..nids).map(|_| Mutex::new(Vec::new())).collect());
        let stop = Arc::new(AtomicBool::new(false));
        let mut writers = Vec::new();
        for k in 0..nids {
            let Ok(mut cl) = srv.tenant_client("solo") else { continue };
            let logs = logs.clone();
            let mut wrng = Rng::derive(args.seed, idx as u64, 0x5000 + k);
            writers.push(std::thread::spawn(move || {
                let id = k + 1;
                for w in 1..=writes_per_id as u64 {
                    let del = wrng.chance(0.12);
                    let call = t0.elapsed().as_nanos();
                    let st = if del {
                        match cl.delete(id, "") {
                            Ok(_) => St::Absent,
                            Err(_) => break,
                        }
                    } else {
                        let mut md = HashMap::new();
                        md.insert("w".to_string(), w.to_string());
                        match cl.insert(id, vec![w as f32, 1.0, 0.0, 0.0], md, "") {
                            Ok(r) if r.success => St::Present(w),
                            _ => break,
                        }
                    };
                    let ret = t0.elapsed().as_nanos();
                    logs[k as usize].lock().unwrap().push((call, ret, st));
                }
            }));
        }
        // (id index, rpc, call, ret, observed state, vector write id, metadata write id)
        let reads: Arc<Mutex<Vec<(usize, &'static str, u128, u128, St, Option<u64>)>>> = Arc::new(Mutex::new(Vec::new()));
        let mut rhandles = Vec::new();
        for r in 0..readers {
            let Ok(mut cl) = srv.tenant_client("solo") else { continue };
            let (reads, stop) = (reads.clone(), stop.clone());
            let mut rrng = Rng::derive(args.seed, idx as u64, 0x6000 + r as u64);
            rhandles.push(std::thread::spawn(move || {
                let mut local = Vec::new();
                while !stop.load(Ordering::SeqCst) {
                    let k = rrng.below(nids) as usize;
                    let id = k as u64 + 1;
                    let bulk = rrng.chance(0.4);
                    let call = t0.elapsed().as_nanos();
                    let (found, emb, meta) = if bulk {
                        match cl.bulk_query(vec![id], true, "") {
                            Ok(mut b) if b.results.len() == 1 => {
                                let q = b.results.remove(0);
                                (q.found, q.embedding, q.metadata)
                            }
                            _ => break,
                        }
                    } else {
                        match cl.query(id, true, "") {
                            Ok(q) => (q.found, q.embedding, q.metadata),
                            Err(_) => break,
                        }
                    };
                    let ret = t0.elapsed().as_nanos();
                    let vw = emb.first().map(|x| *x as u64);
                    let mw = meta.get("w").and_then(|s| s.parse::<u64>().ok());
                    let st = if found { St::Present(vw.unwrap_or(0)) } else { St::Absent };
                    local.push((k, if bulk { "BulkQuery" } else { "Query" }, call, ret, st, if found { mw } else { None }));
                }
                reads.lock().unwrap().extend(local);
            }));
        }
        for w in writers {
            let _ = w.join();
        }
        stop.store(true, Ordering::SeqCst);
        for r in rhandles {
            let _ = r.join();
        }
        srv.kill9();
        let reads = reads.lock().unwrap().clone();
        let mut judged = 0u64;
        let mut overlapping = 0u64;
        let mut bad = false;
        for (k, rpc, call, ret, st, mw) in reads.iter() {
            let log = logs[*k].lock().unwrap();
            // clause: vector and metadata of one read belong to the same write
            if let St::Present(vw) = st {
                if Some(*vw) != *mw {
                    out.violation(
                        format!("server-torn-read|{}", rpc),
                        format!("{} of id {} returned the vector of write {} with the metadata of write {:?}", rpc, k + 1, vw, mw),
                        json!({"desc":desc,"rpc":rpc}),
                    );
                    bad = true;
                    break;
                }
            }
            // allowed states: after the last op completed before the read began, or after any op that overlaps the read
            let last_before = log.iter().rposition(|(_, r, _)| r < call);
            let mut allowed: Vec<St> = vec![match last_before {
                Some(i) => log[i].2,
                None => St::Absent,
            }];
            let from = last_before.map(|i| i + 1).unwrap_or(0);
            for (c, _, s) in log.iter().skip(from) {
                if c < ret {
                    allowed.push(*s);
                } else {
                    break;
                }
            }
            if allowed.len() > 1 {
                overlapping += 1;
            }
            judged += 1;
            if !allowed.contains(st) {
                let sig = match st {
                    St::Absent => "server-read-misses-completed-write",
                    St::Present(_) if allowed.iter().all(|a| *a == St::Absent) => "server-read-returns-deleted-document",
                    St::Present(_) => "server-read-returns-stale-or-foreign-version",
                };
                out.violation(
                    format!("{}|{}", sig, rpc),
                    format!("{} of id {} over [{} ns, {} ns] observed {:?}; explained states are {:?}", rpc, k + 1, call, ret, st, allowed),
                    json!({"desc":desc,"rpc":rpc}),
                );
                bad = true;
                break;
            }
        }
        out.eval();
        out.distinct(&(idx, judged));
        out.count("server_reads_judged", judged);
        out.count("server_reads_overlapping_a_write", overlapping);
        if !bad && idx % 4 == 0 {
            out.sample(json!({"case":desc,"reads":judged,"reads_overlapping_a_write":overlapping,"writes_per_id":writes_per_id}));
        }
    }
    out
}
