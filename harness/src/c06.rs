//! C06 search results are sound and reflect acknowledged recent writes.
//!
//! Per-result oracle against the sequential model and an f64 reference distance, after searches
//! interleaved in sequential histories; every search flavour; SIMD-tail dimensions; the kernel
//! family is forced per process through hook H1 (KYRODB_VERIF_FORCE_KERNEL).

use crate::model::*;
use crate::util::*;
use kyrodb_engine::config::DistanceMetric;
use kyrodb_engine::persistence::FsyncPolicy;
use kyrodb_engine::{LruCacheStrategy, QueryHashCache, SearchResult, TieredEngine};
use serde_json::{json, Value};
use std::collections::BTreeSet;
use std::sync::Arc;

pub fn ref_distance(metric: DistanceMetric, q: &[f32], d: &[f32]) -> f64 {
    match metric {
        DistanceMetric::Euclidean => q
            .iter()
            .zip(d.iter())
            .map(|(a, b)| {
                let x = *a as f64 - *b as f64;
                x * x
            })
            .sum::<f64>()
            .sqrt(),
        _ => {
            let dot: f64 = q.iter().zip(d.iter()).map(|(a, b)| *a as f64 * *b as f64).sum();
            let nq: f64 = q.iter().map(|a| (*a as f64) * (*a as f64)).sum::<f64>().sqrt();
            let nd: f64 = d.iter().map(|a| (*a as f64) * (*a as f64)).sum::<f64>().sqrt();
            if nq == 0.0 || nd == 0.0 {
                return f64::INFINITY;
            }
            (1.0 - dot / (nq * nd)).clamp(0.0, 2.0)
        }
    }
}

pub fn tol(d: f64) -> f64 {
    1e-4 + 1e-4 * d.abs()
}

/// Judge one result list. Returns Err(sig, detail).
pub fn judge(
    metric: DistanceMetric,
    q: &[f32],
    k: usize,
    res: &[SearchResult],
    model: &Model,
    hot_resident: &BTreeSet<u64>,
    check_completeness: bool,
) -> Result<(), (String, String)> {
    if res.len() > k {
        return Err(("more-than-k".into(), format!("{} results for k={}", res.len(), k)));
    }
    let mut seen = BTreeSet::new();
    let mut prev = f32::NEG_INFINITY;
    for r in res {
        if !seen.insert(r.doc_id) {
            return Err(("duplicate-id".into(), format!("doc {} appears twice in {:?}", r.doc_id, res)));
        }
        let Some(doc) = model.docs.get(&r.doc_id) else {
            return Err((
                "dead-document".into(),
                format!("doc {} is not live (deleted or never written) but appears in {:?}", r.doc_id, res),
            ));
        };
        let rd = ref_distance(metric, q, &unbits(&doc.bits));
        if !((r.distance as f64 - rd).abs() <= tol(rd)) {
            return Err((
                "wrong-distance".into(),
                format!(
                    "doc {} reported distance {} but reference distance to its current vector is {} (query {:?}, vector {:?})",
                    r.doc_id, r.distance, rd, q, unbits(&doc.bits)
                ),
            ));
        }
        if r.distance < prev {
            return Err(("not-sorted".into(), format!("distances decrease: {:?}", res)));
        }
        prev = r.distance;
    }
    if check_completeness {
        let kth = if res.len() >= k { res.last().map(|r| r.distance as f64) } else { None };
        for id in hot_resident {
            if seen.contains(id) {
                continue;
            }
            let Some(doc) = model.docs.get(id) else { continue };
            let rd = ref_distance(metric, q, &unbits(&doc.bits));
            if !rd.is_finite() {
                continue;
            }
            let missing = match kth {
                None => true,
                Some(kd) => rd < kd - tol(kd) - tol(rd),
            };
            if missing {
                return Err((
                    "recent-write-missing".into(),
                    format!(
                        "doc {} is acknowledged, resident in the recent-write tier and at reference distance {} but missing from {:?} (k={})",
                        id, rd, res, k
                    ),
                ));
            }
        }
    }
    Ok(())
}

struct Case {
    idx: usize,
    dim: usize,
    metric: DistanceMetric,
    mode: u8, // 0 mixed, 1 heavy delete (tombstone ratio), 2 small capacity (tombstone compaction), 3 bigger collection
    hot_soft: usize,
    hot_hard: usize,
    n_ids: u64,
    len: usize,
    seed: u64,
}

impl Case {
    fn to_json(&self) -> Value {
        json!({"case": self.idx, "dim": self.dim, "metric": metric_name(self.metric), "mode": self.mode, "hot_soft": self.hot_soft,
               "hot_hard": self.hot_hard, "n_ids": self.n_ids, "len": self.len, "kernel": std::env::var("KYRODB_VERIF_FORCE_KERNEL").unwrap_or_else(|_| "auto".into())})
    }
}

fn make_case(seed: u64, idx: usize, thorough: bool) -> Case {
    let mut rng = Rng::derive(seed, idx as u64, 0xC06);
    let dims = [1usize, 3, 7, 8, 9, 15, 16, 17, 33, 34, 40, 65];
    let mode = (idx % 4) as u8;
    let hots = [(2usize, 4usize), (8, 16), (1000, 2000), (1, 1)];
    let (hot_soft, hot_hard) = hots[rng.usize_below(hots.len())];
    Case {
        idx,
        dim: dims[(idx / 4) % dims.len()],
        metric: metric_from(idx / 48 + rng.usize_below(3)),
        mode,
        hot_soft,
        hot_hard,
        n_ids: match mode {
            1 => rng.range(20, 60),
            3 => if thorough { rng.range(200, 1500) } else { rng.range(60, 200) },
            _ => rng.range(4, 14),
        },
        len: match mode {
            1 => rng.range(60, 140) as usize,
            3 => if thorough { rng.range(300, 2000) as usize } else { rng.range(80, 260) as usize },
            _ => rng.range(20, 60) as usize,
        },
        seed: rng.next_u64(),
    }
}

pub fn run(args: &Args) -> Out {
    let kernel = std::env::var("KYRODB_VERIF_FORCE_KERNEL").unwrap_or_else(|_| "auto".into());
    let mut out = Out::new("C06", &format!("search-oracle[{}]", kernel));
    if !kyrodb_engine::verif_hooks::simd_available().contains(&kernel.as_str()) && kernel != "auto" {
        out.note(format!("kernel {} not available on this CPU; leg skipped", kernel));
        return out;
    }
    if let Some(p) = &args.replay {
        let v: Value = serde_json::from_str(&std::fs::read_to_string(p).expect("replay")).expect("json");
        let r = &v["replay"];
        run_case(r["seed"].as_u64().unwrap_or(1), r["case"]["case"].as_u64().unwrap_or(0) as usize, r["thorough"].as_bool().unwrap_or(false), &mut out);
        return out;
    }
    let n = args.n(3_200, 19_200);
    for idx in 0..n {
        if args.mine(idx) {
            run_case(args.seed, idx, args.thorough, &mut out);
        }
    }
    out
}

fn run_case(seed: u64, idx: usize, thorough: bool, out: &mut Out) {
    let case = make_case(seed, idx, thorough);
    let mut rng = Rng::new(case.seed);
    let ecfg = EngCfg {
        dim: case.dim,
        metric: case.metric,
        capacity: if case.mode == 2 { rng.range(6, 12) as usize } else { 100_000 },
        snapshot_interval: 0,
        max_wal: 1 << 30,
        fsync: FsyncPolicy::Never,
        tiered: true,
        hot_soft: case.hot_soft,
        hot_hard: case.hot_hard,
    };
    let mut tcfg = ecfg.tiered_config(None);
    tcfg.hot_tier_timeout_ms = 120_000;
    tcfg.cold_tier_timeout_ms = 120_000;
    tcfg.cache_timeout_ms = 120_000;
    tcfg.hnsw_ef_search = *rng.pick(&[10usize, 50, 400]);
    let qcache = Arc::new(QueryHashCache::new(*rng.pick(&[1usize, 4, 64]), 1.0));
    let engine = match TieredEngine::new(Box::new(LruCacheStrategy::new(4)), qcache, vec![], vec![], tcfg) {
        Ok(e) => e,
        Err(e) => {
            out.violation("create-failed", format!("{:#}", e), case.to_json());
            return;
        }
    };
    let rt = tokio::runtime::Builder::new_current_thread().enable_all().build().expect("rt");
    let g = GenCfg {
        n_ids: case.n_ids,
        dim: case.dim,
        metric: case.metric,
        p_snapshot: 0.0,
        p_restart: 0.0,
        p_flush: 0.06,
    };
    let mut model = Model::default();
    let mut history: Vec<Value> = Vec::new();
    let mut queries: Vec<Vec<f32>> = Vec::new();
    let mut searches = 0u64;
    let mut results_judged = 0u64;
    let mut hot_complete_checks = 0u64;
    let mut max_tomb = 0u64;
    let mut cache_hits = 0u64;
    let mut slots_used = 0u64; // cold-tier slots consumed (for the tombstone ratio)
    let ks = [1usize, 2, 3, 10, 100, 1000];
    let mut flavours = BTreeSet::new();

    macro_rules! viol {
        ($sig:expr, $($fmt:tt)*) => {{
            out.violation($sig, format!($($fmt)*), json!({"check":"C06","seed":seed,"thorough":thorough,"case":case.to_json(),"history":history.iter().rev().take(60).rev().collect::<Vec<_>>()}));
            return;
        }};
    }

    // dimensions beyond 32: half of the cases draw most vectors and queries with their mass in the
    // components at index >= 32 (tight clusters around a few tail axes), where any prefix/tail split
    // of a similarity bound is exercised at its seam
    let tail_heavy = case.dim > 32 && (idx / 4) % 2 == 0;
    let tail_vec = |rng: &mut Rng| -> Vec<f32> {
        let j = 32 + rng.usize_below(case.dim - 32);
        let mut v: Vec<f64> = (0..case.dim).map(|_| 0.03 * rng.gauss()).collect();
        v[j] += 1.0;
        if rng.chance(0.3) {
            v[rng.usize_below(32)] += 0.4;
        }
        if normalizes(case.metric) {
            let n = v.iter().map(|x| x * x).sum::<f64>().sqrt();
            for x in v.iter_mut() {
                *x /= n;
            }
        }
        v.iter().map(|x| *x as f32).collect()
    };
    for step in 0..case.len {
        // ---- a write-ish step
        let op = match case.mode {
            1 if step > case.len / 3 && rng.chance(0.75) => {
                // heavy delete phase
                let live: Vec<u64> = model.docs.keys().copied().collect();
                if live.len() > 2 {
                    Op::Delete { id: *rng.pick(&live) }
                } else {
                    gen_op(&mut rng, &g, &model.live())
                }
            }
            1 | 3 if step < case.len / 3 || rng.chance(0.5) => Op::Insert {
                id: rng.below(case.n_ids),
                vec: gen_vec(&mut rng, case.dim, case.metric),
                meta: Meta::new(),
            },
            _ => gen_op(&mut rng, &g, &model.live()),
        };
        let op = match op {
            Op::Insert { id, meta, .. } if tail_heavy && rng.chance(0.7) => Op::Insert { id, vec: tail_vec(&mut rng), meta },
            other => other,
        };
        history.push(op.to_json());
        match &op {
            Op::Insert { id, vec, meta } => {
                if engine.insert(*id, vec.clone(), to_hm(meta)).is_ok() {
                    slots_used += 1;
                    match engine.cold_tier().fetch_document(*id) {
                        Some(stored) if stored_is_plausible(case.metric, vec, &stored) => model.apply_insert(*id, bits(&stored), meta.clone()),
                        other => viol!("ack-readback", "step {}: acked insert {} reads back {:?}", step, id, other),
                    }
                } else {
                    out.count("rejected_ops", 1);
                }
            }
            Op::Delete { id } => {
                if engine.delete(*id).is_ok() {
                    model.apply_delete(*id);
                }
            }
            Op::BatchDelete { ids } => {
                if engine.batch_delete(ids).is_ok() {
                    for id in ids {
                        model.apply_delete(*id);
                    }
                }
            }
            Op::UpdateMeta { id, meta, merge } => {
                if let Ok(true) = engine.update_metadata(*id, to_hm(meta), *merge) {
                    model.apply_update(*id, meta, *merge);
                }
            }
            Op::Flush => {
                let _ = engine.flush_hot_tier(rng.chance(0.7));
            }
            _ => {}
        }
        if slots_used > 0 {
            let live = model.docs.len() as u64;
            // capacity-bounded collections compact, so this is only an upper estimate there
            let ratio = 100 - (100 * live.min(slots_used)) / slots_used;
            if ecfg.capacity > 1000 {
                max_tomb = max_tomb.max(ratio);
            }
        }

        // ---- searches
        let burst = if case.mode == 3 { if step % 8 == 0 { 3 } else { 0 } } else { rng.range(0, 3) as usize };
        for _ in 0..burst {
            let q: Vec<f32> = match rng.below(10) {
                0..=3 if !queries.is_empty() => rng.pick(&queries).clone(), // repeat (query-cache path), with a fresh k
                4..=5 if !model.docs.is_empty() => {
                    // exactly a stored vector (distance 0 / ties)
                    let ids: Vec<u64> = model.docs.keys().copied().collect();
                    unbits(&model.docs[rng.pick(&ids)].bits)
                }
                _ if tail_heavy && rng.chance(0.7) => tail_vec(&mut rng),
                _ => gen_vec(&mut rng, case.dim, case.metric),
            };
            if queries.len() < 12 {
                queries.push(q.clone());
            }
            let k = *rng.pick(&ks);
            let ef = match rng.below(4) {
                0 => None,
                1 => Some(1usize),
                2 => Some(k),
                _ => Some(10_000),
            };
            let hot_resident: BTreeSet<u64> = engine.hot_tier().snapshot_doc_ids().into_iter().filter(|i| model.docs.contains_key(i)).collect();
            let flavour = rng.below(5);
            let before = engine.stats();
            let (name, res, path): (&str, Result<Vec<SearchResult>, String>, String) = match flavour {
                0 => match engine.knn_search_with_ef_detailed(&q, k, None) {
                    Ok((r, p)) => ("knn_search", Ok(r), format!("{:?}", p)),
                    Err(e) => ("knn_search", Err(format!("{:#}", e)), String::new()),
                },
                1 => match engine.knn_search_with_ef_detailed(&q, k, ef) {
                    Ok((r, p)) => ("knn_search_with_ef", Ok(r), format!("{:?}", p)),
                    Err(e) => ("knn_search_with_ef", Err(format!("{:#}", e)), String::new()),
                },
                2 => {
                    // the judged query sits at a seeded position of the batch; its companion is a repeat of an
                    // earlier query (likely a cache hit) or a fresh one, so hit-then-miss and miss-then-hit
                    // orders inside one batch are both driven
                    let companion = if !queries.is_empty() && rng.chance(0.6) { rng.pick(&queries).clone() } else { gen_vec(&mut rng, case.dim, case.metric) };
                    let pos = rng.usize_below(2);
                    let batch = if pos == 0 { vec![q.clone(), companion] } else { vec![companion, q.clone()] };
                    let ef_b = if rng.chance(0.5) { None } else { ef };
                    match engine.knn_search_batch_with_ef_detailed(&batch, k, ef_b) {
                    Ok(mut v) => {
                        let (r, p) = v.remove(pos.min(v.len().saturating_sub(1)));
                        ("knn_search_batch_with_ef", Ok(r), format!("{:?}", p))
                    }
                    Err(e) => ("knn_search_batch_with_ef", Err(format!("{:#}", e)), String::new()),
                    }
                }
                3 => match rt.block_on(engine.knn_search_with_timeouts_with_ef(&q, k, ef)) {
                    Ok((r, p)) => ("knn_search_with_timeouts", Ok(r), format!("{:?}", p)),
                    Err(e) => ("knn_search_with_timeouts", Err(format!("{:#}", e)), String::new()),
                },
                _ => match engine.cold_tier().knn_search_with_ef(&q, k, ef) {
                    Ok(r) => ("cold_tier.knn_search_with_ef", Ok(r), "ColdDirect".to_string()),
                    Err(e) => ("cold_tier.knn_search_with_ef", Err(format!("{:#}", e)), String::new()),
                },
            };
            let after = engine.stats();
            searches += 1;
            flavours.insert(name);
            history.push(json!({"op":"search","flavour":name,"k":k,"ef":ef,"q_bits":bits(&q),"path":path}));
            let res = match res {
                Ok(r) => r,
                Err(e) => viol!("search-error", "step {}: {} on a valid query failed: {}", step, name, e),
            };
            if path == "CacheHit" {
                cache_hits += 1;
            }
            let degraded = path == "Degraded"
                || after.partial_results_returned != before.partial_results_returned
                || after.hot_tier_timeouts != before.hot_tier_timeouts
                || after.cold_tier_timeouts != before.cold_tier_timeouts
                || after.circuit_breaker_rejections != before.circuit_breaker_rejections
                || after.worker_saturation_count != before.worker_saturation_count;
            if degraded {
                out.count("degraded_responses_excluded", 1);
            }
            // the engine normalises the query for cosine / inner product; the reference distance is scale-free there
            let complete = flavour != 4 && !degraded;
            if complete {
                hot_complete_checks += 1;
            }
            results_judged += res.len() as u64;
            if let Err((sig, detail)) = judge(case.metric, &q, k, &res, &model, &hot_resident, complete) {
                viol!(format!("{}|{}", sig, if flavour == 4 { "cold" } else { "tiered" }), "step {}: {} (k={}, ef={:?}, path {}): {}", step, name, k, ef, path, detail);
            }
        }
    }
    out.eval();
    out.count("searches", searches);
    out.count("results_judged", results_judged);
    out.count("recent_write_completeness_checks", hot_complete_checks);
    out.count("query_cache_hits_judged", cache_hits);
    out.set_max("max_tombstone_ratio_pct", max_tomb);
    if searches >= 3 && flavours.len() >= 2 {
        out.distinct(&(case.to_json().to_string(), history.iter().map(|h| h.to_string()).collect::<Vec<_>>()));
    }
    if idx % 211 == 0 {
        out.sample(json!({"case": case.to_json(), "searches": searches, "tail": history.iter().rev().take(3).collect::<Vec<_>>()}));
    }
}
