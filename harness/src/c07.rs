//! C07 the query-result cache never serves stale or foreign results.
//!
//! leg cache-model: reference-model monitor on QueryHashCache directly (entries, scopes, k,
//!   required invalidations with vectors generated near the pruning bound, generation guard).
//! leg engine: end-to-end on TieredEngine; every CacheHit is judged as if it were a fresh search
//!   now, plus completeness for documents written since the last store of that query.

use crate::c06::{judge, ref_distance, tol};
use crate::model::*;
use crate::util::*;
use kyrodb_engine::config::DistanceMetric;
use kyrodb_engine::persistence::FsyncPolicy;
use kyrodb_engine::{LruCacheStrategy, QueryHashCache, SearchExecutionPath, SearchResult, TieredEngine};
use serde_json::{json, Value};
use std::collections::{BTreeMap, BTreeSet};
use std::sync::Arc;

pub fn run(args: &Args) -> Out {
    let leg = args.get("leg").unwrap_or("cache-model").to_string();
    let mut out = Out::new("C07", &leg);
    let replay_case: Option<(u64, usize)> = args.replay.as_ref().and_then(|p| {
        let v: Value = serde_json::from_str(&std::fs::read_to_string(p).ok()?).ok()?;
        Some((v["replay"]["seed"].as_u64()?, v["replay"]["case"].as_u64()? as usize))
    });
    match leg.as_str() {
        "cache-model" => {
            if let Some((s, c)) = replay_case {
                cache_case(s, c, &mut out);
            } else {
                for idx in 0..args.n(480_000, 4_800_000) {
                    if args.mine(idx) {
                        cache_case(args.seed, idx, &mut out);
                    }
                }
            }
        }
        "engine" => {
            if let Some((s, c)) = replay_case {
                engine_case(s, c, &mut out);
            } else {
                for idx in 0..args.n(160_000, 1_280_000) {
                    if args.mine(idx) {
                        engine_case(args.seed, idx, &mut out);
                    }
                }
            }
        }
        "schedule" => {
            crate::sched::install();
            if let Some((s, c)) = replay_case {
                schedule_case(s, c, &mut out);
            } else {
                for idx in 0..args.n(96_000, 960_000) {
                    if args.mine(idx) {
                        schedule_case(args.seed, idx, &mut out);
                    }
                }
            }
            out.count("lock_events", crate::sched::lock_events());
            out.count("pauses_taken", crate::sched::pauses_taken());
        }
        _ => {}
    }
    out
}

// ---------------------------------------------------------------------------------------------
// leg 3: one searching thread against one writing thread under directed pauses; at quiescence a
// following search that hits the cache must be fresh with respect to the completed write

fn schedule_case(seed: u64, idx: usize, out: &mut Out) {
    use crate::sched;
    let mut rng = Rng::derive(seed, idx as u64, 0x5C07);
    let dim = [3usize, 8, 40][idx % 3];
    let metric = metric_from(idx / 3);
    let ecfg = EngCfg {
        dim,
        metric,
        capacity: 10_000,
        snapshot_interval: 0,
        max_wal: 1 << 30,
        fsync: FsyncPolicy::Never,
        tiered: true,
        hot_soft: *rng.pick(&[2usize, 1000]),
        hot_hard: 2000,
    };
    let mut tcfg = ecfg.tiered_config(None);
    tcfg.hnsw_ef_search = 400;
    let engine = match TieredEngine::new(Box::new(LruCacheStrategy::new(4)), Arc::new(QueryHashCache::new(8, 1.0)), vec![], vec![], tcfg) {
        Ok(e) => Arc::new(e),
        Err(_) => return,
    };
    let mut model = Model::default();
    let q = gen_vec(&mut rng, dim, metric);
    let n0 = rng.range(3, 6);
    for id in 0..n0 {
        let v = gen_vec(&mut rng, dim, metric);
        if engine.insert(id, v, std::collections::HashMap::new()).is_ok() {
            if let Some(st) = engine.cold_tier().fetch_document(id) {
                model.apply_insert(id, bits(&st), Meta::new());
            }
        }
    }
    if rng.chance(0.5) {
        let _ = engine.flush_hot_tier(true);
    }
    let k = rng.range(1, 3) as usize;
    // the write: 0 = insert a new document right at the query, 1 = delete the current best, 2 = overwrite the current best far away
    let kind = idx % 3;
    let best = engine.knn_search_with_ef(&q, 1, Some(400)).ok().and_then(|r| r.first().map(|r| r.doc_id));
    let prewarm = rng.chance(0.3);
    if prewarm {
        let _ = engine.knn_search(&q, k);
    }
    let new_id = 50u64;
    let far = gen_vec(&mut rng, dim, metric).iter().map(|x| -x * 3.0 - 1.0).collect::<Vec<f32>>();
    let mode = idx % 2;
    let pt = rng.usize_below(2);
    let pe = 1 + rng.usize_below(40);
    if mode == 0 {
        sched::set_pause(Some(sched::Pause { thread: pt, event: pe, max_ms: 20 }), None);
    } else {
        sched::set_jitter(400, rng.next_u64());
    }
    let (e1, e2) = (engine.clone(), engine.clone());
    let (q1, qw) = (q.clone(), q.clone());
    let bodies: Vec<Box<dyn FnOnce() + Send + 'static>> = vec![
        Box::new(move || {
            let _ = e1.knn_search(&q1, k);
        }),
        Box::new(move || match kind {
            0 => {
                let _ = e2.insert(new_id, qw, std::collections::HashMap::new());
            }
            1 => {
                if let Some(b) = best {
                    let _ = e2.delete(b);
                }
            }
            _ => {
                if let Some(b) = best {
                    let _ = e2.insert(b, far, std::collections::HashMap::new());
                }
            }
        }),
    ];
    let r = sched::run_threads(&["searcher".to_string(), "writer".to_string()], bodies, std::time::Duration::from_secs(30));
    sched::set_jitter(0, 1);
    sched::clear_graph();
    if !r.completed {
        out.inconclusive("schedule did not complete");
        std::mem::forget(engine);
        return;
    }
    // model after the (completed) write
    let mut written = BTreeSet::new();
    match kind {
        0 => {
            if let Some(st) = engine.cold_tier().fetch_document(new_id) {
                model.apply_insert(new_id, bits(&st), Meta::new());
                written.insert(new_id);
            }
        }
        1 => {
            if let Some(b) = best {
                model.apply_delete(b);
            }
        }
        _ => {
            if let Some(b) = best {
                if let Some(st) = engine.cold_tier().fetch_document(b) {
                    model.apply_insert(b, bits(&st), Meta::new());
                    written.insert(b);
                }
            }
        }
    }
    out.eval();
    let write_name = ["insert-at-query", "delete-best", "overwrite-best-far"][kind];
    let mode_name = ["single-pause", "jitter"][mode];
    let desc = json!({"check":"C07","leg":"schedule","seed":seed,"case":idx,"dim":dim,"metric":metric_name(metric),"write":write_name,"k":k,"prewarm":prewarm,
                      "mode":mode_name,"pause":{"thread":pt,"event":pe}});
    for round in 0..2 {
        match engine.knn_search_with_ef_detailed(&q, k, None) {
            Ok((res, path)) => {
                if path == SearchExecutionPath::CacheHit {
                    out.count("quiescent_cache_hits_judged", 1);
                    if let Err((sig, detail)) = judge(metric, &q, k, &res, &model, &written, true) {
                        let sig = match sig.as_str() {
                            "dead-document" => "stale-hit-after-racing-delete",
                            "wrong-distance" => "stale-hit-after-racing-overwrite",
                            "recent-write-missing" => "stale-hit-omits-racing-insert",
                            other => other,
                        };
                        out.violation(
                            format!("{}|store-after-invalidate", sig),
                            format!("case {}: after searcher and writer both returned, search #{} of the same query is served from the cache but is not fresh: {}", idx, round, detail),
                            desc.clone(),
                        );
                        return;
                    }
                }
            }
            Err(_) => {}
        }
    }
    out.distinct(&(idx % 9, kind, mode, pt, pe, prewarm));
    if idx % 797 == 0 {
        out.sample(desc);
    }
}

// ---------------------------------------------------------------------------------------------
// leg 1: reference-model monitor on the cache itself

#[derive(Clone, Debug)]
struct RefEntry {
    scope: u64,
    q: Vec<f32>,
    k: usize,
    results: Vec<(u64, u32)>,
    dead: bool,
    doa: bool,
    stored_at: usize,
}

fn quant(v: f32) -> f64 {
    (v as f64 * 32768.0).round()
}

fn related(q: &[f32], e: &[f32], threshold: f64) -> bool {
    if q.len() != e.len() {
        return false;
    }
    if bits(q) == bits(e) {
        return true;
    }
    if q.iter().zip(e.iter()).all(|(a, b)| quant(*a) == quant(*b)) {
        return true;
    }
    let dot: f64 = q.iter().zip(e.iter()).map(|(a, b)| *a as f64 * *b as f64).sum();
    let nq: f64 = q.iter().map(|a| (*a as f64).powi(2)).sum::<f64>().sqrt();
    let ne: f64 = e.iter().map(|a| (*a as f64).powi(2)).sum::<f64>().sqrt();
    if nq == 0.0 || ne == 0.0 {
        return false;
    }
    dot / (nq * ne) > threshold - 1e-5
}

fn cache_distance(metric: DistanceMetric, q: &[f32], d: &[f32]) -> f64 {
    match metric {
        DistanceMetric::InnerProduct => 1.0 - q.iter().zip(d.iter()).map(|(a, b)| *a as f64 * *b as f64).sum::<f64>(),
        _ => ref_distance(metric, q, d),
    }
}

fn unit(rng: &mut Rng, dim: usize, tail_heavy: bool) -> Vec<f64> {
    loop {
        let mut v: Vec<f64> = (0..dim)
            .map(|i| {
                let g = rng.gauss();
                if tail_heavy && i < 32 {
                    g * 0.05
                } else {
                    g
                }
            })
            .collect();
        let n: f64 = v.iter().map(|x| x * x).sum::<f64>().sqrt();
        if n < 1e-6 {
            continue;
        }
        for x in v.iter_mut() {
            *x /= n;
        }
        return v;
    }
}

/// a vector at (approximately) `target` distance from q under `metric`
fn at_distance(rng: &mut Rng, metric: DistanceMetric, q: &[f32], target: f64, tail_heavy: bool) -> Vec<f32> {
    let dim = q.len();
    let u = unit(rng, dim, tail_heavy);
    match metric {
        DistanceMetric::Euclidean => q.iter().zip(u.iter()).map(|(a, b)| (*a as f64 + target.max(0.0) * b) as f32).collect(),
        _ => {
            // q is unit: emb = cos*q + sin*u_perp
            let qd: Vec<f64> = q.iter().map(|x| *x as f64).collect();
            let proj: f64 = qd.iter().zip(u.iter()).map(|(a, b)| a * b).sum();
            let mut p: Vec<f64> = u.iter().zip(qd.iter()).map(|(b, a)| b - proj * a).collect();
            let n: f64 = p.iter().map(|x| x * x).sum::<f64>().sqrt();
            if n < 1e-9 {
                return q.to_vec();
            }
            for x in p.iter_mut() {
                *x /= n;
            }
            let c = (1.0 - target).clamp(-1.0, 1.0);
            let s = (1.0 - c * c).max(0.0).sqrt();
            qd.iter().zip(p.iter()).map(|(a, b)| (c * a + s * b) as f32).collect()
        }
    }
}

fn cache_case(seed: u64, idx: usize, out: &mut Out) {
    let mut rng = Rng::derive(seed, idx as u64, 0xC07);
    let dims = [1usize, 8, 31, 32, 33, 64, 130];
    let dim = dims[idx % dims.len()];
    let metric = metric_from(idx / 7);
    let threshold = [1.0f32, 0.9, 0.52][(idx / 21) % 3];
    let capacity = [1usize, 2, 4, 64][rng.usize_below(4)];
    let cache = QueryHashCache::new(capacity, threshold);
    let nscopes = 2u64;
    let ndocs = 6u64;
    // doc table per scope: id = scope*1000 + j
    let mut docs: BTreeMap<u64, Vec<f32>> = BTreeMap::new();
    let mk_vec = |rng: &mut Rng| -> Vec<f32> {
        if normalizes(metric) {
            let th = rng.chance(0.3);
            unit(rng, dim, th).iter().map(|x| *x as f32).collect()
        } else {
            let s = [0.3, 1.0, 5.0, 40.0][rng.usize_below(4)];
            (0..dim).map(|_| (rng.gauss() * s) as f32).collect()
        }
    };
    for s in 0..nscopes {
        for j in 0..ndocs {
            if rng.chance(0.7) {
                let v = mk_vec(&mut rng);
                docs.insert(s * 1000 + j, v);
            }
        }
    }
    let mut pool: Vec<Vec<f32>> = (0..4).map(|_| mk_vec(&mut rng)).collect();
    // near-duplicates: below the quantisation step, and slightly above it
    let base = pool[0].clone();
    pool.push(base.iter().map(|x| x + 1e-7).collect());
    pool.push(base.iter().map(|x| x * 1.0005).collect());
    if !normalizes(metric) {
        // large-magnitude queries (regression guard for saturating quantisation)
        pool.push(base.iter().map(|x| x * 50.0 + 3.0).collect());
        pool.push(base.iter().map(|x| x * 70.0 + 4.0).collect());
        // pairs of distinct queries with the same signs at magnitudes spanning the float range: any
        // saturating / truncating quantisation in the query key makes such a pair collide
        let m = [1e3f32, 7e4, 1e5, 3e6, 1e9, 1e15][rng.usize_below(6)];
        let big: Vec<f32> = base.iter().map(|x| if *x < 0.0 { -m * (1.0 + x.abs()) } else { m * (1.0 + x.abs()) }).collect();
        let mut big2 = big.clone();
        let c = rng.usize_below(big2.len());
        big2[c] *= 2.5;
        pool.push(big);
        pool.push(big2);
    }
    let mut entries: Vec<RefEntry> = Vec::new();
    let mut history: Vec<Value> = Vec::new();
    let mut hits = 0u64;
    let mut required_invalidations = 0u64;
    let steps = rng.range(20, 60) as usize;
    let fresh = |docs: &BTreeMap<u64, Vec<f32>>, scope: u64, q: &[f32], k: usize| -> Vec<SearchResult> {
        let mut r: Vec<SearchResult> = docs
            .iter()
            .filter(|(id, _)| **id / 1000 == scope)
            .map(|(id, v)| SearchResult {
                doc_id: *id,
                distance: cache_distance(metric, q, v) as f32,
            })
            .filter(|r| r.distance.is_finite())
            .collect();
        r.sort_by(|a, b| a.distance.partial_cmp(&b.distance).unwrap().then(a.doc_id.cmp(&b.doc_id)));
        r.truncate(k);
        r
    };
    macro_rules! viol {
        ($sig:expr, $($fmt:tt)*) => {{
            out.violation($sig, format!($($fmt)*), json!({"check":"C07","leg":"cache-model","seed":seed,"case":idx,"dim":dim,"metric":metric_name(metric),"threshold":threshold,"capacity":capacity,"history":history.iter().rev().take(40).rev().collect::<Vec<_>>()}));
            return;
        }};
    }
    for step in 0..steps {
        match rng.below(100) {
            0..=54 => {
                // search = get, and on miss compute + (maybe interleaved write) + store
                let scope = rng.below(nscopes);
                let q = rng.pick(&pool).clone();
                let k = rng.range(1, 4) as usize;
                let gen = cache.invalidation_generation();
                let got = cache.get_scoped(scope, &q, k);
                history.push(json!({"step":step,"op":"get","scope":scope,"k":k,"q0":q[0],"hit":got.is_some()}));
                if let Some(res) = got {
                    hits += 1;
                    let rb: Vec<(u64, u32)> = res.iter().map(|r| (r.doc_id, r.distance.to_bits())).collect();
                    let matches_results = |e: &RefEntry| {
                        let take = k.min(e.results.len());
                        e.results[..take] == rb[..]
                    };
                    let ok = entries.iter().any(|e| !e.dead && !e.doa && e.scope == scope && e.k >= k && matches_results(e) && related(&q, &e.q, threshold as f64));
                    if !ok {
                        let cands: Vec<&RefEntry> = entries.iter().filter(|e| matches_results(e)).collect();
                        let sig = if cands.iter().any(|e| e.scope == scope && e.k >= k && related(&q, &e.q, threshold as f64) && e.doa) {
                            "stored-after-invalidation"
                        } else if cands.iter().any(|e| e.scope == scope && e.k >= k && related(&q, &e.q, threshold as f64) && e.dead) {
                            "stale-entry-served"
                        } else if cands.iter().any(|e| e.scope == scope && related(&q, &e.q, threshold as f64) && e.k < k) {
                            "served-for-larger-k"
                        } else if cands.iter().any(|e| e.scope != scope && related(&q, &e.q, threshold as f64)) {
                            "cross-scope-hit"
                        } else if cands.iter().any(|e| e.scope == scope) {
                            "foreign-entry-served|hash-collision"
                        } else {
                            "unexplained-hit"
                        };
                        viol!(sig, "step {}: get_scoped(scope {}, k {}) returned {:?}; no live reference entry explains it; candidates with these results: {:?}", step, scope, k, res, cands.iter().map(|e| json!({"scope":e.scope,"k":e.k,"dead":e.dead,"doa":e.doa,"stored_at":e.stored_at,"related":related(&q,&e.q,threshold as f64)})).collect::<Vec<_>>());
                    }
                } else {
                    let res = fresh(&docs, scope, &q, k);
                    if res.is_empty() {
                        continue;
                    }
                    // an interleaved write between compute and store
                    let mut interleaved = false;
                    if rng.chance(0.25) {
                        interleaved = true;
                        let id = scope * 1000 + rng.below(ndocs);
                        match rng.below(3) {
                            0 => {
                                cache.invalidate_doc(id);
                            }
                            1 => {
                                let v = mk_vec(&mut rng);
                                cache.invalidate_for_insert(&v, metric);
                            }
                            _ => cache.clear(),
                        }
                        history.push(json!({"step":step,"op":"interleaved-invalidation"}));
                    }
                    let conditional = rng.chance(0.8);
                    let stored = if conditional {
                        cache.insert_with_k_scoped_if_generation(scope, q.clone(), res.clone(), k, gen)
                    } else {
                        cache.insert_with_k_scoped(scope, q.clone(), res.clone(), k);
                        true
                    };
                    history.push(json!({"step":step,"op":"store","scope":scope,"k":k,"conditional":conditional,"interleaved":interleaved,"stored":stored,"n":res.len()}));
                    entries.push(RefEntry {
                        scope,
                        q: q.clone(),
                        k: k.max(res.len()),
                        results: res.iter().map(|r| (r.doc_id, r.distance.to_bits())).collect(),
                        dead: false,
                        // computed before an invalidation and stored conditionally afterwards: must not be servable
                        doa: conditional && interleaved,
                        stored_at: step,
                    });
                }
            }
            55..=79 => {
                // write: new/updated document; half of them placed near a live entry's boundary
                let scope = rng.below(nscopes);
                let id = scope * 1000 + rng.below(ndocs);
                let live: Vec<usize> = entries.iter().enumerate().filter(|(_, e)| !e.dead && !e.doa && e.scope == scope && !e.results.is_empty()).map(|(i, _)| i).collect();
                let v = if !live.is_empty() && rng.chance(0.6) {
                    let e = &entries[*rng.pick(&live)];
                    let worst = e.results.iter().map(|r| f32::from_bits(r.1) as f64).fold(f64::NEG_INFINITY, f64::max);
                    let delta = [1e-3, 1e-2, 0.1][rng.usize_below(3)] * (1.0 + worst.abs());
                    let target = if rng.chance(0.5) { worst - delta } else { worst + delta };
                    let th = rng.chance(0.5);
                    at_distance(&mut rng, metric, &e.q, target, th)
                } else {
                    mk_vec(&mut rng)
                };
                docs.insert(id, v.clone());
                cache.invalidate_doc(id);
                cache.invalidate_for_insert(&v, metric);
                history.push(json!({"step":step,"op":"write","id":id,"v0":v[0]}));
                for e in entries.iter_mut() {
                    if e.dead {
                        continue;
                    }
                    let contains = e.results.iter().any(|r| r.0 == id);
                    let worst = e.results.iter().map(|r| f32::from_bits(r.1) as f64).fold(f64::NEG_INFINITY, f64::max);
                    let d = cache_distance(metric, &e.q, &v);
                    let inside = e.scope == scope && (e.results.len() < e.k || d < worst - tol(worst) - tol(d));
                    if contains || inside {
                        e.dead = true;
                        required_invalidations += 1;
                    }
                }
            }
            80..=91 => {
                let scope = rng.below(nscopes);
                let id = scope * 1000 + rng.below(ndocs);
                docs.remove(&id);
                cache.invalidate_doc(id);
                history.push(json!({"step":step,"op":"delete","id":id}));
                for e in entries.iter_mut() {
                    if !e.dead && e.results.iter().any(|r| r.0 == id) {
                        e.dead = true;
                        required_invalidations += 1;
                    }
                }
            }
            92..=95 => {
                cache.clear();
                history.push(json!({"step":step,"op":"clear"}));
                for e in entries.iter_mut() {
                    e.dead = true;
                }
            }
            _ => {
                if cache.len() > capacity {
                    viol!("over-capacity", "step {}: cache holds {} entries, capacity {}", step, cache.len(), capacity);
                }
            }
        }
    }
    out.eval();
    out.count("cache_hits_judged", hits);
    out.count("required_invalidations", required_invalidations);
    out.count("cache_ops", history.len() as u64);
    if hits > 0 && required_invalidations > 0 {
        out.distinct(&(idx, history.iter().map(|h| h.to_string()).collect::<Vec<_>>()));
    }
    if idx % 1201 == 0 {
        out.sample(json!({"leg":"cache-model","case":idx,"dim":dim,"metric":metric_name(metric),"threshold":threshold,"capacity":capacity,"hits":hits,"required_invalidations":required_invalidations,"tail":history.iter().rev().take(4).collect::<Vec<_>>()}));
    }
}

// ---------------------------------------------------------------------------------------------
// leg 2: end-to-end on the engine

fn engine_case(seed: u64, idx: usize, out: &mut Out) {
    let mut rng = Rng::derive(seed, idx as u64, 0xE07);
    let dims = [2usize, 3, 8, 33, 40];
    let dim = dims[idx % dims.len()];
    let metric = metric_from(idx / 5);
    let ecfg = EngCfg {
        dim,
        metric,
        capacity: 100_000,
        snapshot_interval: 0,
        max_wal: 1 << 30,
        fsync: FsyncPolicy::Never,
        tiered: true,
        hot_soft: *rng.pick(&[2usize, 1000]),
        hot_hard: 2000,
    };
    let mut tcfg = ecfg.tiered_config(None);
    tcfg.hnsw_ef_search = 400;
    let qcache = Arc::new(QueryHashCache::new(*rng.pick(&[2usize, 8, 64]), 1.0));
    let engine = match TieredEngine::new(Box::new(LruCacheStrategy::new(4)), qcache, vec![], vec![], tcfg) {
        Ok(e) => e,
        Err(e) => {
            out.violation("create-failed", format!("{:#}", e), json!({"seed":seed,"case":idx}));
            return;
        }
    };
    let n_ids = rng.range(4, 10);
    let g = GenCfg {
        n_ids,
        dim,
        metric,
        p_snapshot: 0.0,
        p_restart: 0.0,
        p_flush: 0.05,
    };
    let nq = 4usize;
    let pool: Vec<Vec<f32>> = (0..nq).map(|_| gen_vec(&mut rng, dim, metric)).collect();
    let scopes = [0u64, 7];
    // (query index, scope) -> documents written since the last non-hit search of that query
    let mut since: BTreeMap<(usize, u64), BTreeSet<u64>> = BTreeMap::new();
    let mut model = Model::default();
    let mut history: Vec<Value> = Vec::new();
    let mut hits = 0u64;
    let mut hits_after_writes = 0u64;
    let steps = rng.range(25, 70) as usize;
    macro_rules! viol {
        ($sig:expr, $($fmt:tt)*) => {{
            out.violation($sig, format!($($fmt)*), json!({"check":"C07","leg":"engine","seed":seed,"case":idx,"dim":dim,"metric":metric_name(metric),"history":history.iter().rev().take(50).rev().collect::<Vec<_>>()}));
            return;
        }};
    }
    for step in 0..steps {
        if rng.chance(0.5) {
            let qi = rng.usize_below(nq);
            let scope = *rng.pick(&scopes);
            let k = rng.range(1, 4) as usize;
            let batch = rng.chance(0.2);
            let r = if batch {
                engine
                    .knn_search_batch_with_ef_detailed_scoped(&[pool[qi].clone()], k, None, scope)
                    .map(|mut v| v.remove(0))
            } else {
                engine.knn_search_with_ef_detailed_scoped(&pool[qi], k, None, scope)
            };
            let (res, path) = match r {
                Ok(x) => x,
                Err(e) => viol!("search-error", "step {}: {:#}", step, e),
            };
            history.push(json!({"step":step,"op":"search","q":qi,"scope":scope,"k":k,"path":format!("{:?}",path),"res":res.iter().map(|r| (r.doc_id, r.distance)).collect::<Vec<_>>()}));
            if path == SearchExecutionPath::CacheHit {
                hits += 1;
                let written = since.get(&(qi, scope)).cloned().unwrap_or_default();
                if !written.is_empty() {
                    hits_after_writes += 1;
                }
                // judged as a fresh search now; completeness over documents written since the store
                if let Err((sig, detail)) = judge(metric, &pool[qi], k, &res, &model, &written, true) {
                    let sig = match sig.as_str() {
                        "dead-document" => "hit-contains-deleted-document",
                        "wrong-distance" => "hit-has-pre-overwrite-distance",
                        "recent-write-missing" => "hit-omits-document-written-since",
                        other => other,
                    }
                    .to_string();
                    viol!(sig, "step {}: CacheHit for query {} scope {} k {}: {}", step, qi, scope, k, detail);
                }
            } else {
                since.insert((qi, scope), BTreeSet::new());
            }
        } else {
            let op = gen_op(&mut rng, &g, &model.live());
            history.push(op.to_json());
            let mut touched: Vec<u64> = Vec::new();
            match &op {
                Op::Insert { id, vec, meta } => {
                    let (id, vec) = if rng.chance(0.3) {
                        // bulk load path (clears the query cache by design)
                        (*id, vec.clone())
                    } else {
                        (*id, vec.clone())
                    };
                    let bulk = rng.chance(0.15);
                    let ok = if bulk {
                        matches!(engine.bulk_load_cold_tier(vec![(id, vec.clone(), to_hm(meta))]), Ok((1, 0, _, _)))
                    } else {
                        engine.insert(id, vec.clone(), to_hm(meta)).is_ok()
                    };
                    if ok {
                        if let Some(stored) = engine.cold_tier().fetch_document(id) {
                            model.apply_insert(id, bits(&stored), meta.clone());
                            touched.push(id);
                        }
                    }
                }
                Op::Delete { id } => {
                    if engine.delete(*id).is_ok() {
                        model.apply_delete(*id);
                    }
                }
                Op::BatchDelete { ids } => {
                    if engine.batch_delete(ids).is_ok() {
                        for id in ids {
                            model.apply_delete(*id);
                        }
                    }
                }
                Op::UpdateMeta { id, meta, merge } => {
                    if let Ok(true) = engine.update_metadata(*id, to_hm(meta), *merge) {
                        model.apply_update(*id, meta, *merge);
                    }
                }
                Op::Flush => {
                    let _ = engine.flush_hot_tier(true);
                }
                _ => {}
            }
            for id in touched {
                for (_, s) in since.iter_mut() {
                    s.insert(id);
                }
            }
        }
    }
    out.eval();
    out.count("cache_hits_judged", hits);
    out.count("cache_hits_after_writes_judged", hits_after_writes);
    if hits > 0 {
        out.distinct(&(idx, history.iter().map(|h| h.to_string()).collect::<Vec<_>>()));
    }
    if idx % 401 == 0 {
        out.sample(json!({"leg":"engine","case":idx,"dim":dim,"metric":metric_name(metric),"hits":hits,"tail":history.iter().rev().take(3).collect::<Vec<_>>()}));
    }
}
