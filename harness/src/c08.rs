//! C08 no interleaving of concurrent API calls can deadlock.
//!
//! Monitors: (1) lock-order graph harvested from every run (candidates only), (2) directed
//! single-pause sweeps: op X is parked before its i-th lock event (for every i) while op Y runs to
//! completion or blocks, then X resumes; (3) two-pause and three-thread variants; (4) free-running
//! soak with seeded jitter at lock events. Ground truth for "deadlock" is parking_lot's own
//! wait-for-cycle detector; a watchdog expiry without a reported cycle is inconclusive.

use crate::model::*;
use crate::sched;
use crate::util::*;
use kyrodb_engine::cache_strategy::CacheStrategy;
use kyrodb_engine::config::DistanceMetric;
use kyrodb_engine::persistence::FsyncPolicy;
use kyrodb_engine::proto::{metadata_filter::FilterType, ExactMatch, MetadataFilter, NotFilter};
use kyrodb_engine::{LearnedCachePredictor, LearnedCacheStrategy, QueryHashCache, TieredEngine};
use serde_json::json;
use std::sync::Arc;
use std::time::Duration;

pub struct Ctx {
    pub engine: Arc<TieredEngine>,
    pub strategy: Arc<LearnedCacheStrategy>,
    pub rt: Arc<tokio::runtime::Runtime>,
    pub dim: usize,
    pub _scratch: Scratch,
}

pub const OPS: [&str; 32] = [
    "insert_new",
    "overwrite",
    "delete",
    "batch_delete_ids",
    "batch_delete_filter",
    "batch_delete_filter_uncompilable",
    "update_metadata",
    "query",
    "query_miss",
    "bulk_query",
    "get_with_metadata",
    "exists",
    "knn_search",
    "knn_search_ef",
    "knn_batch",
    "knn_timed",
    "flush_forced",
    "flush_threshold",
    "bulk_load",
    "snapshot",
    "stats",
    "hsc_lifecycle_stats",
    "predictor_swap",
    "insert_at_hard_limit",
    "insert_index_full",
    "get_embedding_cache_aware",
    "knn_similar",
    "knn_evicting",
    "flush_threshold_never_drained",
    "stats_never_drained",
    "query_semantic",
    "stats_semantic",
];

fn vecf(seed: u64, dim: usize) -> Vec<f32> {
    let mut r = Rng::new(seed);
    gen_unit_vec(&mut r, dim)
}

fn meta1(k: &str, v: &str) -> std::collections::HashMap<String, String> {
    let mut m = std::collections::HashMap::new();
    m.insert(k.to_string(), v.to_string());
    m
}

/// variant 0: roomy limits; 1: recent-write tier at its hard limit; 2: cold index full (tombstones present);
/// 3: recent-write tier never drained and below its threshold
pub fn make_ctx(variant: u8, rt: Arc<tokio::runtime::Runtime>) -> Option<Ctx> {
    let scratch = Scratch::new("c08");
    let dim = 4;
    let cfg = EngCfg {
        dim,
        metric: DistanceMetric::Cosine,
        capacity: if variant == 2 { 8 } else { 10_000 },
        snapshot_interval: 3,
        max_wal: 256,
        fsync: FsyncPolicy::Never,
        tiered: true,
        hot_soft: if variant == 1 { 2 } else if variant == 3 { 32 } else { 6 },
        hot_hard: if variant == 1 { 3 } else { 64 },
    };
    // variant 5: query/worker permits = 2 and a 1 ms cold stage (see below)
    // variant 4: learned + semantic admission with a trained predictor (its own stats / cache_state locks)
    let strategy = if variant == 4 {
        Arc::new(LearnedCacheStrategy::new_with_semantic(4, crate::c04::trained_predictor(4, &[0, 1, 2, 3]), kyrodb_engine::SemanticAdapter::new()))
    } else {
        Arc::new(LearnedCacheStrategy::new(4, LearnedCachePredictor::new(4).ok()?))
    };
    let shared: Arc<dyn CacheStrategy> = Arc::new(kyrodb_engine::SharedLearnedCacheStrategy::new(strategy.clone()));
    let dir = scratch.sub("data");
    let mut tcfg = cfg.tiered_config(Some(dir.as_path()));
    if variant == 5 {
        // saturation: two query / worker permits and a cold stage that times out at once, so that timed
        // searches take the load-shedding and partial-result exits
        tcfg.max_concurrent_queries = 2;
        tcfg.cold_tier_timeout_ms = 1;
    }
    let engine = TieredEngine::new_with_shared_strategy(shared, Arc::new(QueryHashCache::new(4, 0.9)), vec![], vec![], tcfg).ok()?;
    let engine = Arc::new(engine);
    // population: ids 0..6; half drained to the cold tier only, half with a recent-write mirror
    for id in 0..6u64 {
        engine.insert(id, vecf(id + 1, dim), meta1("k", if id % 2 == 0 { "even" } else { "odd" })).ok()?;
        // variant 3: the recent-write tier has NEVER been drained (and stays below its threshold)
        if id == 2 && variant != 3 {
            let _ = engine.flush_hot_tier(true);
        }
    }
    if variant == 2 {
        // fill the index: 8 slots, make tombstones by overwriting
        let _ = engine.insert(0, vecf(100, dim), meta1("k", "even"));
        let _ = engine.insert(1, vecf(101, dim), meta1("k", "odd"));
    }
    for id in 0..6u64 {
        let _ = engine.query(id, None);
    }
    let _ = engine.knn_search(&vecf(1, dim), 2);
    Some(Ctx { engine, strategy, rt, dim, _scratch: scratch })
}

pub fn run_op(ctx: &Ctx, op: &str, salt: u64) {
    let e = &ctx.engine;
    let d = ctx.dim;
    match op {
        "insert_new" | "insert_at_hard_limit" | "insert_index_full" => {
            let _ = e.insert(10 + salt % 4, vecf(20 + salt, d), meta1("k", "new"));
        }
        "overwrite" => {
            let _ = e.insert(3, vecf(30 + salt, d), meta1("k", "over"));
        }
        "delete" => {
            let _ = e.delete(3);
        }
        "batch_delete_ids" => {
            let _ = e.batch_delete(&[3, 4, 4, 99]);
        }
        "batch_delete_filter" => {
            let f = MetadataFilter { filter_type: Some(FilterType::Exact(ExactMatch { key: "k".into(), value: "odd".into() })) };
            let _ = e.batch_delete_by_metadata_filter(&f);
        }
        "batch_delete_filter_uncompilable" => {
            // NOT without operand does not compile to a bitmap and takes the scan fallback
            let f = MetadataFilter { filter_type: Some(FilterType::NotFilter(Box::new(NotFilter { filter: None }))) };
            let _ = e.batch_delete_by_metadata_filter(&f);
        }
        "update_metadata" => {
            let _ = e.update_metadata(3, meta1("k", "upd"), salt % 2 == 0);
        }
        "query" => {
            let _ = e.query(3, None);
        }
        "query_semantic" => {
            // point reads that carry the query embedding (semantic admission scans its cache state)
            let q = vecf(3 + salt % 5, d);
            let _ = e.query(salt % 6, Some(&q));
            let _ = e.query((salt + 1) % 6, Some(&q));
        }
        "query_miss" => {
            let _ = e.query(77, None);
        }
        "bulk_query" => {
            let _ = e.bulk_query(&[0, 3, 5, 77], true);
        }
        "get_with_metadata" => {
            let _ = e.get_document_with_metadata(3);
        }
        "get_embedding_cache_aware" => {
            let _ = e.get_embedding_cache_aware(3);
        }
        "exists" => {
            let _ = e.exists(3);
        }
        "knn_search" => {
            let _ = e.knn_search(&vecf(3 + salt % 2, d), 3);
        }
        "knn_similar" => {
            // close to the query cached by make_ctx (vecf(1)) but not bit-identical: similarity-hit path
            let mut q = vecf(1, d);
            q[(salt as usize) % d] += 0.01 + 0.001 * (salt % 7) as f32;
            let n = q.iter().map(|x| x * x).sum::<f32>().sqrt();
            for x in q.iter_mut() {
                *x /= n;
            }
            let _ = e.knn_search(&q, 2);
        }
        "knn_evicting" => {
            // more distinct queries than the query cache holds: evicting inserts
            for i in 0..6u64 {
                let _ = e.knn_search(&vecf(1000 + salt * 8 + i, d), 2);
            }
        }
        "knn_search_ef" => {
            let _ = e.knn_search_with_ef(&vecf(4, d), 3, Some(16));
        }
        "knn_batch" => {
            let _ = e.knn_search_batch_with_ef(&[vecf(5, d), vecf(6, d)], 2, None);
        }
        "knn_timed" => {
            let q = vecf(7, d);
            let _ = ctx.rt.block_on(e.knn_search_with_timeouts(&q, 3));
        }
        "flush_forced" => {
            let _ = e.flush_hot_tier(true);
        }
        "flush_threshold" | "flush_threshold_never_drained" => {
            let _ = e.flush_hot_tier(false);
        }
        "bulk_load" => {
            let _ = e.bulk_load_cold_tier(vec![(3, vecf(40 + salt, d), meta1("k", "bulk")), (12, vecf(41, d), meta1("k", "bulk"))]);
        }
        "snapshot" => {
            let _ = e.cold_tier().create_snapshot();
        }
        "stats_semantic" => {
            let _ = e.hsc_lifecycle_stats();
            let _ = e.stats();
        }
        "stats" | "stats_never_drained" => {
            let _ = e.stats();
            let _ = e.cache_size();
        }
        "hsc_lifecycle_stats" => {
            let _ = e.hsc_lifecycle_stats();
        }
        "predictor_swap" => {
            if let Ok(p) = LearnedCachePredictor::new(4) {
                ctx.strategy.update_predictor(p);
            }
        }
        _ => {}
    }
}

fn variant_for(op: &str) -> u8 {
    match op {
        "insert_at_hard_limit" => 1,
        "insert_index_full" => 2,
        "flush_threshold_never_drained" | "stats_never_drained" => 3,
        "query_semantic" | "stats_semantic" => 4,
        _ => 0,
    }
}

/// lock events of an operation run alone (thread 0 of a one-thread run)
fn solo_events(op: &str, rt: &Arc<tokio::runtime::Runtime>) -> usize {
    let Some(ctx) = make_ctx(variant_for(op), rt.clone()) else { return 0 };
    let ctx = Arc::new(ctx);
    let n = Arc::new(std::sync::atomic::AtomicUsize::new(0));
    let (c2, n2, op2) = (ctx.clone(), n.clone(), op.to_string());
    let _ = sched::run_threads(
        &[op.to_string()],
        vec![Box::new(move || {
            let before = sched::my_events();
            run_op(&c2, &op2, 0);
            n2.store(sched::my_events() - before, std::sync::atomic::Ordering::SeqCst);
        })],
        Duration::from_secs(20),
    );
    n.load(std::sync::atomic::Ordering::SeqCst)
}

fn deadlock_sig(report: &[Vec<String>]) -> String {
    let mut tops: Vec<String> = report.iter().map(|frames| frames.first().cloned().unwrap_or_else(|| "unknown".into())).map(|f| f.replace("kyrodb_engine::", "")).collect();
    tops.sort();
    tops.dedup();
    format!("deadlock|{}", tops.join("+"))
}

pub fn run(args: &Args) -> Out {
    let leg = args.get("leg").unwrap_or("pair-sweep").to_string();
    let mut out = Out::new("C08", &leg);
    sched::install();
    let rt = Arc::new(tokio::runtime::Builder::new_multi_thread().worker_threads(2).enable_all().build().expect("rt"));
    match leg.as_str() {
        "pair-sweep" => pair_sweep(args, &rt, &mut out),
        "soak" => soak(args, &rt, &mut out),
        _ => {}
    }
    // lock-order graph harvested over every run of this process (candidates are never verdicts)
    out.count("lock_events", sched::lock_events());
    out.count("pauses_taken", sched::pauses_taken());
    out.count("worker_delays_taken", sched::worker_delays_taken());
    let cands: Vec<String> = CANDIDATES.lock().unwrap().iter().cloned().collect();
    for c in cands.iter().take(10) {
        out.note(c.clone());
    }
    out
}

fn run_schedule(rt: &Arc<tokio::runtime::Runtime>, ops: &[&str], pause: Option<sched::Pause>, pause2: Option<sched::Pause>, salt: u64, out: &mut Out, desc: serde_json::Value) -> bool {
    // the context variant follows the most demanding op
    let variant = ops.iter().map(|o| variant_for(o)).max().unwrap_or(0);
    let Some(ctx) = make_ctx(variant, rt.clone()) else {
        out.inconclusive("engine construction failed");
        return true;
    };
    let ctx = Arc::new(ctx);
    sched::set_pause(pause, pause2);
    let labels: Vec<String> = ops.iter().map(|s| s.to_string()).collect();
    let bodies: Vec<Box<dyn FnOnce() + Send + 'static>> = ops
        .iter()
        .enumerate()
        .map(|(i, op)| {
            let c = ctx.clone();
            let op = op.to_string();
            Box::new(move || run_op(&c, &op, salt + i as u64)) as Box<dyn FnOnce() + Send + 'static>
        })
        .collect();
    let r = sched::run_threads(&labels, bodies, Duration::from_secs(30));
    out.eval();
    harvest_graph(out);
    if let Some(report) = r.deadlock {
        let sig = deadlock_sig(&report);
        out.violation(
            sig,
            format!("operations {:?} deadlock under schedule {} (wait-for cycle reported by parking_lot's detector); engine frames per blocked thread: {:?}", ops, desc, report),
            json!({"check":"C08","ops":ops,"schedule":desc,"report":report}),
        );
        // the blocked threads are leaked together with their engine
        std::mem::forget(ctx);
        return false;
    }
    if !r.completed {
        out.inconclusive(format!("schedule {} did not finish within the watchdog and no wait-for cycle was reported", desc));
        std::mem::forget(ctx);
        return false;
    }
    true
}

/// Lock addresses are only meaningful within one engine's lifetime: harvest the instance-level
/// graph after every run into site-level candidate descriptions, then clear it.
fn harvest_graph(out: &mut Out) {
    let cycles = sched::cycles();
    let rr = sched::recursive_reads();
    out.count("lock_order_edges_observed", sched::edges().len() as u64);
    for c in cycles {
        let d = c.iter().map(|e| format!("[{} {}@{} -> {}@{}]", e.op, sched::mode_name(e.from_mode), e.from_site, sched::mode_name(e.to_mode), e.to_site)).collect::<Vec<_>>().join(" ");
        if CANDIDATES.lock().unwrap().insert(format!("cycle candidate (not a verdict): {}", d)) {
            out.count("graph_cycle_candidates", 1);
        }
    }
    for e in rr {
        let d = format!("recursive-read candidate (not a verdict): {} holds {}@{} and re-reads@{}", e.op, sched::mode_name(e.from_mode), e.from_site, e.to_site);
        if CANDIDATES.lock().unwrap().insert(d) {
            out.count("recursive_read_candidates", 1);
        }
    }
    sched::clear_graph();
}

static CANDIDATES: std::sync::Mutex<std::collections::BTreeSet<String>> = std::sync::Mutex::new(std::collections::BTreeSet::new());

fn pair_sweep(args: &Args, rt: &Arc<tokio::runtime::Runtime>, out: &mut Out) {
    let mut events = std::collections::BTreeMap::new();
    for op in OPS.iter() {
        events.insert(*op, solo_events(op, rt));
    }
    out.sample(json!({"solo_lock_events_per_op": events}));
    let mut rng = Rng::derive(args.seed, args.shard as u64, 0xC08);
    let mut n = 0usize;
    let mut deadlocked_pairs = std::collections::BTreeSet::new();
    for (xi, x) in OPS.iter().enumerate() {
        for (yi, y) in OPS.iter().enumerate() {
            n += 1;
            if !args.mine(n) {
                continue;
            }
            let ex = events[x].max(1);
            // quick: a seeded sample of pause points (always the first, the last and some inner ones); thorough: every point
            let points: Vec<usize> = if args.thorough {
                (1..=ex).collect()
            } else {
                let mut p: std::collections::BTreeSet<usize> = [1usize, ex, (ex + 1) / 2].into_iter().collect();
                for _ in 0..5 {
                    p.insert(1 + rng.usize_below(ex));
                }
                p.into_iter().collect()
            };
            for i in points {
                if deadlocked_pairs.contains(&(xi, yi)) {
                    break;
                }
                let desc = json!({"kind":"single-pause","x":x,"y":y,"x_paused_before_lock_event":i,"x_events":ex});
                let ok = run_schedule(rt, &[x, y], Some(sched::Pause { thread: 0, event: i, max_ms: 40 }), None, (i as u64) ^ args.seed, out, desc.clone());
                out.distinct(&(x, y, i));
                if !ok {
                    deadlocked_pairs.insert((xi, yi));
                }
            }
            // a two-pause variant: both parked once, Y released when X resumes
            if events[y] > 1 && !deadlocked_pairs.contains(&(xi, yi)) {
                let i = 1 + rng.usize_below(ex);
                let j = 1 + rng.usize_below(events[y].max(1));
                let desc = json!({"kind":"double-pause","x":x,"y":y,"x_event":i,"y_event":j});
                run_schedule(rt, &[x, y], Some(sched::Pause { thread: 0, event: i, max_ms: 25 }), Some(sched::Pause { thread: 1, event: j, max_ms: 25 }), args.seed, out, desc);
                out.distinct(&(x, y, i, j));
            }
            // a selected triple: X parked, Y and a third op run
            if (xi + yi) % 5 == 0 && !deadlocked_pairs.contains(&(xi, yi)) {
                let z = OPS[rng.usize_below(OPS.len())];
                let i = 1 + rng.usize_below(ex);
                let desc = json!({"kind":"triple","x":x,"y":y,"z":z,"x_event":i});
                run_schedule(rt, &[x, y, z], Some(sched::Pause { thread: 0, event: i, max_ms: 40 }), None, args.seed, out, desc);
                out.distinct(&(x, y, z, i));
            }
        }
    }
}

fn soak(args: &Args, rt: &Arc<tokio::runtime::Runtime>, out: &mut Out) {
    let rounds = args.n(96, 800);
    let mut watchdogs = 0;
    for round in 0..rounds {
        if !args.mine(round) {
            continue;
        }
        let mut rng = Rng::derive(args.seed, round as u64, 0x50A4);
        let Some(ctx) = make_ctx((round % 6) as u8, rt.clone()) else { continue };
        let ctx = Arc::new(ctx);
        sched::set_jitter(300, rng.next_u64());
        // saturation rounds: the engine's blocking-pool search workers (not registered with the run) are
        // delayed at their lock acquisitions, so that they outlive the 1 ms cold stage, keep their worker
        // permit and the next timed searches find the worker semaphore exhausted before either stage
        sched::set_worker_delay(if round % 6 == 5 { 250 } else { 0 });
        let nthreads = 8;
        let labels: Vec<String> = (0..nthreads).map(|i| format!("soak{}", i)).collect();
        let bodies: Vec<Box<dyn FnOnce() + Send + 'static>> = (0..nthreads)
            .map(|t| {
                let c = ctx.clone();
                let mut r = Rng::derive(args.seed, round as u64, 0x700 + t as u64);
                Box::new(move || {
                    // rounds on the semantic-strategy context concentrate on its own operations
                    const SEMANTIC_OPS: [&str; 8] = ["query_semantic", "query_semantic", "query_semantic", "stats_semantic", "stats_semantic", "query", "overwrite", "insert_new"];
                    for k in 0..120 {
                        const SATURATION_OPS: [&str; 8] = ["knn_timed", "knn_timed", "knn_timed", "knn_timed", "knn_timed", "insert_new", "overwrite", "stats"];
                        let op = if round % 6 == 4 {
                            SEMANTIC_OPS[r.usize_below(SEMANTIC_OPS.len())]
                        } else if round % 6 == 5 {
                            SATURATION_OPS[r.usize_below(SATURATION_OPS.len())]
                        } else {
                            OPS[r.usize_below(OPS.len())]
                        };
                        sched::set_label(op);
                        run_op(&c, op, k);
                    }
                }) as Box<dyn FnOnce() + Send + 'static>
            })
            .collect();
        let r = sched::run_threads(&labels, bodies, Duration::from_secs(60));
        sched::set_jitter(0, 1);
        sched::set_worker_delay(0);
        if round % 6 == 5 && r.completed && r.deadlock.is_none() {
            // which load-shedding exits the timed searches of this round actually took
            let st = ctx.engine.stats();
            out.count("saturation_partial_result_exits", st.partial_results_returned);
            out.count("saturation_worker_permit_refusals", st.worker_saturation_count);
            out.count("saturation_rejected_queries", st.queries_rejected);
        }
        out.eval();
        harvest_graph(out);
        out.distinct(&(round, args.seed));
        out.count("soak_ops", (nthreads * 120) as u64);
        if let Some(report) = r.deadlock {
            out.violation(
                deadlock_sig(&report),
                format!("8 free-running threads issuing random catalogue operations deadlock (round {}); engine frames per blocked thread: {:?}", round, report),
                json!({"check":"C08","leg":"soak","round":round,"seed":args.seed,"report":report}),
            );
            std::mem::forget(ctx);
            // stuck threads of this round are leaked; one witness per shard is enough
            break;
        } else if !r.completed {
            out.inconclusive(format!("soak round {} hit the watchdog without a reported wait-for cycle", round));
            std::mem::forget(ctx);
            watchdogs += 1;
            if watchdogs >= 2 {
                break;
            }
        }
    }
}
