//! C09 snapshots and compaction racing with writers lose and duplicate nothing.
//!
//! 1-2 writer threads (unique-valued insert/overwrite/delete/metadata update, automatic snapshot
//! triggers, tiny rotation thresholds and capacities forcing WAL and tombstone compaction) race
//! with a thread issuing manual snapshots under directed pauses at lock events / seeded jitter.
//! After all calls returned: recover(copy of the directory) == final live collection, every key's
//! final value is one of the acknowledged writes, S and L hold.

use crate::model::*;
use crate::sched;
use crate::util::*;
use kyrodb_engine::config::DistanceMetric;
use kyrodb_engine::persistence::{FsyncPolicy, Manifest};
use kyrodb_engine::HnswBackend;
use serde_json::{json, Value};
use std::collections::{BTreeMap, BTreeSet, HashMap};
use std::sync::atomic::{AtomicU64, Ordering};
use std::sync::{Arc, Mutex};
use std::time::Duration;

#[derive(Clone, Debug)]
enum W {
    Put(u64),
    Del(u64),
    Upd(u64),
    BatchDel(Vec<u64>),
}

pub fn run(args: &Args) -> Out {
    let mut out = Out::new("C09", "snapshot-vs-writers");
    sched::install();
    let only: Option<usize> = args.replay.as_ref().and_then(|p| {
        let v: Value = serde_json::from_str(&std::fs::read_to_string(p).ok()?).ok()?;
        v["replay"]["case"].as_u64().map(|x| x as usize)
    });
    let n = args.n(57_600, 960_000);
    for idx in 0..n {
        if let Some(o) = only {
            if o != idx {
                continue;
            }
        } else if !args.mine(idx) {
            continue;
        }
        run_case(args.seed, idx, &mut out);
    }
    out.count("lock_events", sched::lock_events());
    out.count("pauses_taken", sched::pauses_taken());
    out
}

fn run_case(seed: u64, idx: usize, out: &mut Out) {
    let mut rng = Rng::derive(seed, idx as u64, 0xC09);
    let scratch = Scratch::new("c09");
    let dir = scratch.sub("data");
    let dim = 3;
    let cfg = EngCfg {
        dim,
        metric: DistanceMetric::Euclidean,
        capacity: *rng.pick(&[4usize, 6, 8, 1000]),
        snapshot_interval: *rng.pick(&[1usize, 2, 3, 1000]),
        max_wal: *rng.pick(&[64u64, 128, 256, 1 << 20]),
        fsync: if idx % 4 == 0 { FsyncPolicy::Always } else { FsyncPolicy::Never },
        tiered: false,
        hot_soft: 1,
        hot_hard: 1,
    };
    let backend = match HnswBackend::with_persistence(dim, cfg.metric, vec![], vec![], cfg.capacity, &dir, cfg.fsync, cfg.snapshot_interval, cfg.max_wal) {
        Ok(b) => Arc::new(b),
        Err(_) => return,
    };
    let nkeys = if cfg.capacity <= 8 { 3 } else { rng.range(2, 5) };
    let next_w = Arc::new(AtomicU64::new(1));
    // acknowledged effects per key, in acknowledgement order (per thread order is program order)
    let acked: Arc<Mutex<Vec<(usize, u64, String, bool)>>> = Arc::new(Mutex::new(Vec::new()));
    let nwriters = rng.range(1, 2) as usize;
    let programs: Vec<Vec<W>> = (0..nwriters)
        .map(|_| {
            (0..rng.range(3, 8))
                .map(|_| {
                    let k = rng.below(nkeys);
                    match rng.below(100) {
                        0..=54 => W::Put(k),
                        55..=74 => W::Del(k),
                        75..=89 => W::Upd(k),
                        _ => W::BatchDel(vec![k, (k + 1) % nkeys]),
                    }
                })
                .collect()
        })
        .collect();
    let nsnaps = rng.range(1, 4) as usize;
    let mode = idx % 3;
    let nthreads = nwriters + 1;
    let pt = rng.usize_below(nthreads);
    let pe = 1 + rng.usize_below(if pt == nwriters { 40 } else { 120 });
    let p1 = sched::Pause { thread: pt, event: pe, max_ms: 25 };
    let p2 = sched::Pause { thread: (pt + 1) % nthreads, event: 1 + rng.usize_below(80), max_ms: 25 };
    match mode {
        0 => sched::set_pause(Some(p1), None),
        1 => sched::set_pause(Some(p1), Some(p2)),
        _ => sched::set_jitter(350, rng.next_u64()),
    }
    let mut labels: Vec<String> = (0..nwriters).map(|t| format!("writer{}", t)).collect();
    labels.push("snapshotter".into());
    let mut bodies: Vec<Box<dyn FnOnce() + Send + 'static>> = Vec::new();
    for (t, prog) in programs.iter().enumerate() {
        let b = backend.clone();
        let prog = prog.clone();
        let next_w = next_w.clone();
        let acked = acked.clone();
        bodies.push(Box::new(move || {
            for w in &prog {
                match w {
                    W::Put(k) => {
                        let id = next_w.fetch_add(1, Ordering::SeqCst);
                        let mut m = HashMap::new();
                        m.insert("w".to_string(), id.to_string());
                        let ok = b.insert(*k, vec![id as f32, 1.0, 2.0], m).is_ok();
                        acked.lock().unwrap().push((t, *k, format!("put:{}", id), ok));
                    }
                    W::Del(k) => {
                        let ok = b.delete(*k).is_ok();
                        acked.lock().unwrap().push((t, *k, "del".into(), ok));
                    }
                    W::Upd(k) => {
                        let id = next_w.fetch_add(1, Ordering::SeqCst);
                        let mut m = HashMap::new();
                        m.insert("u".to_string(), id.to_string());
                        let ok = b.update_metadata(*k, m, true).is_ok();
                        acked.lock().unwrap().push((t, *k, format!("upd:{}", id), ok));
                    }
                    W::BatchDel(ks) => {
                        let ok = b.batch_delete(ks).is_ok();
                        for k in ks {
                            acked.lock().unwrap().push((t, *k, "del".into(), ok));
                        }
                    }
                }
            }
        }));
    }
    {
        let b = backend.clone();
        bodies.push(Box::new(move || {
            for _ in 0..nsnaps {
                let _ = b.create_snapshot();
            }
        }));
    }
    let r = sched::run_threads(&labels, bodies, Duration::from_secs(30));
    sched::set_jitter(0, 1);
    sched::clear_graph();
    let mode_name = ["single-pause", "double-pause", "jitter"][mode];
    let desc = json!({"check":"C09","seed":seed,"case":idx,"cfg":cfg.to_json(),"mode":mode_name,"pause":{"thread":pt,"event":pe},
        "writers": programs.iter().map(|p| p.iter().map(|w| format!("{:?}", w)).collect::<Vec<_>>()).collect::<Vec<_>>(), "manual_snapshots": nsnaps});
    if !r.completed {
        out.inconclusive(format!("case {} did not complete (deadlock reported: {})", idx, r.deadlock.is_some()));
        std::mem::forget(backend);
        return;
    }
    out.eval();
    let universe: Vec<u64> = (0..nkeys).collect();
    let live = census_backend(&backend, &universe);
    let acked_v = acked.lock().unwrap().clone();
    macro_rules! viol {
        ($sig:expr, $($fmt:tt)*) => {{
            out.violation($sig, format!($($fmt)*), json!({"schedule": desc, "acked": acked_v.iter().map(|a| json!([a.0, a.1, a.2, a.3])).collect::<Vec<_>>()}));
            return;
        }};
    }
    let s = shape_invariants(&backend);
    if !s.is_empty() {
        viol!("shape", "case {}: shape invariants broken at quiescence: {:?}", idx, s);
    }
    // every key's final live vector is one written by an acknowledged (or failed-but-possibly-applied) put; absence needs a delete or no put
    let mut puts: BTreeMap<u64, BTreeSet<u64>> = BTreeMap::new();
    let mut dels: BTreeSet<u64> = BTreeSet::new();
    for (_, k, what, _ok) in &acked_v {
        if let Some(id) = what.strip_prefix("put:") {
            puts.entry(*k).or_default().insert(id.parse().unwrap_or(0));
        } else if what == "del" {
            dels.insert(*k);
        }
    }
    for k in &universe {
        match live.docs.get(k) {
            Some(d) => {
                let w = f32::from_bits(d.bits[0]) as u64;
                if !puts.get(k).map(|s| s.contains(&w)).unwrap_or(false) {
                    viol!("live-value-never-written", "case {}: key {} holds write {} which no writer issued for it", idx, k, w);
                }
                if d.meta.get("w").map(|s| s.as_str()) != Some(w.to_string().as_str()) {
                    viol!("live-vector-metadata-mismatch", "case {}: key {} holds the vector of write {} with metadata {:?}", idx, k, w, d.meta);
                }
            }
            None => {
                let all_ok_puts = acked_v.iter().any(|(_, kk, what, ok)| kk == k && what.starts_with("put:") && *ok);
                if all_ok_puts && !dels.contains(k) {
                    viol!("acknowledged-write-lost-live", "case {}: key {} is absent although a put was acknowledged and no delete was issued", idx, k);
                }
            }
        }
    }
    // the published snapshot pointer and sequence must be coherent
    drop(r);
    let copy = scratch.sub("copy");
    if copy_dir(&dir, &copy).is_err() {
        out.inconclusive("copy failed");
        return;
    }
    match check_logs(&copy) {
        Ok(st) => {
            out.set_max("max_segments", st.segments as u64);
        }
        Err(errs) => viol!("logs", "case {}: on-disk log inconsistent at quiescence: {:?}", idx, errs),
    }
    match recover_backend(&cfg, &copy) {
        Ok(b2) => {
            let rec = census_backend(&b2, &universe);
            let d = diff_models(&live, &rec);
            if !d.is_empty() {
                let m = Manifest::load(dir.join("MANIFEST")).ok();
                viol!(
                    "recovered-differs-from-final-live",
                    "case {}: after all calls returned, recovering a copy of the directory differs from the final live collection: {:?} (manifest snapshot seq {:?}, segments {:?})",
                    idx,
                    d,
                    m.as_ref().and_then(|m| m.latest_snapshot_wal_seq),
                    m.as_ref().map(|m| m.wal_segments.len())
                );
            }
            let s2 = shape_invariants(&b2);
            if !s2.is_empty() {
                viol!("shape-recovered", "case {}: {:?}", idx, s2);
            }
        }
        Err(e) => viol!("recover-failed", "case {}: strict recovery of a copy taken at quiescence fails: {:#}", idx, e),
    }
    out.count("writes_issued", acked_v.len() as u64);
    out.distinct(&(desc["writers"].to_string(), desc["cfg"].to_string(), mode, pt, pe));
    if idx % 499 == 0 {
        out.sample(json!({"schedule": desc, "final_live_keys": live.docs.len()}));
    }
}
