//! C10 tenants are isolated end to end (real server binary).
//!
//! Per-tenant reference models; every response to tenant T is judged against T's model ALONE
//! (non-interference); after each history every tenant's census equals its model. A separate
//! two-world probe runs tenant A's identical workload alone and interleaved with tenant B's
//! writes of identical / nearby vectors and compares A's observable responses.

use crate::c11::{reference, F};
use crate::model::{gen_unit_vec, Meta};
use crate::srv::*;
use crate::util::*;
use kyrodb_engine::proto::{InsertRequest, SearchRequest};
use serde_json::{json, Value};
use std::collections::{BTreeMap, BTreeSet, HashMap};
use tonic::Code;

const RESERVED: [&str; 3] = ["__tenant_id__", "__tenant_idx__", "__namespace__"];
const NSS: [&str; 3] = ["", "ns1", "ns2"];

#[derive(Clone, Debug, PartialEq)]
struct D {
    vec: Vec<f32>,
    meta: Meta,
    ns: String,
}

struct Tn {
    id: String,
    cl: Cl,
    model: BTreeMap<u64, D>,
}

impl Tn {
    /// full metadata as the server stores it (for filter semantics)
    fn full_meta(&self, d: &D) -> Meta {
        let mut m = d.meta.clone();
        m.insert("__tenant_id__".into(), self.id.clone());
        if !d.ns.is_empty() {
            m.insert("__namespace__".into(), d.ns.clone());
        }
        m
    }
    fn matching(&self, ns: &str, f: Option<&F>) -> BTreeSet<u64> {
        self.model
            .iter()
            .filter(|(_, d)| (ns.is_empty() || d.ns == ns) && f.map(|f| reference(f, &self.full_meta(d))).unwrap_or(true))
            .map(|(k, _)| *k)
            .collect()
    }
}

fn public(meta: &HashMap<String, String>) -> Meta {
    meta.iter().filter(|(k, _)| !RESERVED.contains(&k.as_str())).map(|(k, v)| (k.clone(), v.clone())).collect()
}

fn gen_user_meta(rng: &mut Rng, other_tenant: &str) -> HashMap<String, String> {
    let mut m = HashMap::new();
    if rng.chance(0.7) {
        m.insert("cat".to_string(), rng.pick(&["x", "y"]).to_string());
    }
    if rng.chance(0.5) {
        m.insert("n".to_string(), rng.below(4).to_string());
    }
    // spoofed reserved keys
    if rng.chance(0.3) {
        m.insert("__tenant_id__".to_string(), other_tenant.to_string());
    }
    if rng.chance(0.3) {
        m.insert("__tenant_idx__".to_string(), rng.below(3).to_string());
    }
    if rng.chance(0.3) {
        m.insert("__namespace__".to_string(), rng.pick(&["ns1", "evil"]).to_string());
    }
    m
}

fn gen_filter(rng: &mut Rng, own: &str, other: &str) -> F {
    let leaf = |rng: &mut Rng| -> F {
        match rng.below(9) {
            0 => F::Exact("cat".into(), rng.pick(&["x", "y"]).to_string()),
            1 => F::Range("n".into(), rng.below(4) as u8, rng.below(4).to_string()),
            2 => F::In("cat".into(), vec!["x".into(), "z".into()]),
            // reserved keys: determinable for the tenant's own documents
            3 => F::Exact("__tenant_id__".into(), other.to_string()),
            4 => F::Exact("__tenant_id__".into(), own.to_string()),
            5 => F::Not(Some(Box::new(F::Exact("__tenant_id__".into(), own.to_string())))),
            6 => F::Not(None),
            7 => F::Or(vec![]),
            _ => F::And(vec![]),
        }
    };
    match rng.below(5) {
        0 => leaf(rng),
        1 => F::Not(Some(Box::new(leaf(rng)))),
        2 => F::Or(vec![leaf(rng), leaf(rng)]),
        3 => F::And(vec![leaf(rng), leaf(rng)]),
        _ => F::Or(vec![F::Exact("__tenant_id__".into(), other.to_string()), leaf(rng)]),
    }
}

pub fn run(args: &Args) -> Out {
    let leg = args.get("leg").unwrap_or("histories").to_string();
    let mut out = Out::new("C10", &leg);
    let Some(bin) = args.get("server").map(|s| s.to_string()) else {
        out.note("no server binary");
        return out;
    };
    let rt = new_rt();
    let only: Option<usize> = args.replay.as_ref().and_then(|p| {
        let v: Value = serde_json::from_str(&std::fs::read_to_string(p).ok()?).ok()?;
        v["replay"]["case"].as_u64().map(|x| x as usize)
    });
    let n = if leg == "histories" { args.n(480, 4800) } else if leg == "provisioning" { args.n(48, 480) } else { args.n(192, 1920) };
    for idx in 0..n {
        if let Some(o) = only {
            if o != idx {
                continue;
            }
        } else if !args.mine(idx) {
            continue;
        }
        if leg == "histories" {
            history_case(args.seed, idx, &bin, &rt, &mut out);
        } else if leg == "provisioning" {
            provisioning_case(args.seed, idx, &bin, &rt, &mut out);
        } else {
            two_world_case(args.seed, idx, &bin, &rt, &mut out);
        }
    }
    out
}

fn base_cfg(dim: usize, rng: &mut Rng) -> SrvCfg {
    SrvCfg {
        dim,
        tenants: vec![
            TenantSpec { id: "acme".into(), max_vectors: 10_000, max_qps: 0, enabled: true, admin: false },
            TenantSpec { id: "beta".into(), max_vectors: 10_000, max_qps: 0, enabled: true, admin: false },
            TenantSpec { id: "gone".into(), max_vectors: 10_000, max_qps: 0, enabled: false, admin: false },
            TenantSpec { id: "root".into(), max_vectors: 10_000, max_qps: 0, enabled: true, admin: true },
        ],
        fsync: "data_only",
        snapshot_interval: *rng.pick(&[5u64, 1000]),
        cache_capacity: *rng.pick(&[4usize, 64]),
        query_cache_threshold: 0.52,
        ..Default::default()
    }
}

fn history_case(seed: u64, idx: usize, bin: &str, rt: &std::sync::Arc<tokio::runtime::Runtime>, out: &mut Out) {
    let mut rng = Rng::derive(seed, idx as u64, 0xC10);
    let dim = 4;
    let mut srv = Srv::new(base_cfg(dim, &mut rng), bin, rt.clone());
    if let Err(e) = srv.start() {
        out.inconclusive(format!("server start failed: {}", e));
        return;
    }
    let mut ts: Vec<Tn> = Vec::new();
    for id in ["acme", "beta"] {
        match srv.tenant_client(id) {
            Ok(cl) => ts.push(Tn { id: id.to_string(), cl, model: BTreeMap::new() }),
            Err(e) => {
                out.inconclusive(e);
                return;
            }
        }
    }
    let universe: Vec<u64> = (1..=6).collect();
    // a small pool of vectors shared by both tenants (identical vectors / queries provoke cache reuse)
    let pool: Vec<Vec<f32>> = (0..5).map(|_| gen_unit_vec(&mut rng, dim)).collect();
    let mut history: Vec<Value> = Vec::new();
    let mut rpcs = 0u64;
    macro_rules! viol {
        ($sig:expr, $($fmt:tt)*) => {{
            out.violation($sig, format!($($fmt)*), json!({"check":"C10","leg":"histories","seed":seed,"case":idx,"history":history.iter().rev().take(50).rev().collect::<Vec<_>>()}));
            return;
        }};
    }
    macro_rules! rpc_err {
        ($e:expr) => {{
            out.inconclusive(format!("rpc failed: {}", $e));
            return;
        }};
    }
    let steps = rng.range(60, 140);
    for step in 0..steps {
        let ti = rng.usize_below(2);
        let other = ts[1 - ti].id.clone();
        let own = ts[ti].id.clone();
        let id = *rng.pick(&universe);
        let ns = rng.pick(&NSS).to_string();
        rpcs += 1;
        // reserved keys must never appear in any response
        let check_meta = |m: &HashMap<String, String>| -> Option<String> { RESERVED.iter().find(|k| m.contains_key(**k)).map(|k| k.to_string()) };
        match rng.below(100) {
            0..=27 => {
                let v = rng.pick(&pool).clone();
                let meta = gen_user_meta(&mut rng, &other);
                let route = rng.below(3);
                let route_name = ["insert", "bulk_insert", "bulk_load"][route as usize];
                history.push(json!({"step":step,"t":own,"op":route_name,"id":id,"ns":ns,"meta":meta}));
                let ok = match route {
                    0 => match ts[ti].cl.insert(id, v.clone(), meta.clone(), &ns) {
                        Ok(r) => r.success,
                        Err(e) => rpc_err!(e),
                    },
                    1 => match ts[ti].cl.bulk_insert(vec![InsertRequest { doc_id: id, embedding: v.clone(), metadata: meta.clone(), namespace: ns.clone() }]) {
                        Ok(r) => r.total_inserted == 1,
                        Err(e) => rpc_err!(e),
                    },
                    _ => match ts[ti].cl.bulk_load(vec![InsertRequest { doc_id: id, embedding: v.clone(), metadata: meta.clone(), namespace: ns.clone() }]) {
                        Ok(r) => r.total_loaded == 1,
                        Err(e) => rpc_err!(e),
                    },
                };
                if !ok {
                    viol!("valid-write-refused", "step {}: tenant {} valid write of id {} was refused", step, own, id);
                }
                ts[ti].model.insert(id, D { vec: v, meta: public(&meta), ns: ns.clone() });
            }
            28..=39 => {
                let inc = rng.chance(0.5);
                history.push(json!({"step":step,"t":own,"op":"query","id":id,"ns":ns}));
                match ts[ti].cl.query(id, inc, &ns) {
                    Ok(r) => {
                        let exp = ts[ti].model.get(&id).filter(|d| ns.is_empty() || d.ns == ns);
                        if r.found != exp.is_some() {
                            viol!("query-found-mismatch", "step {}: tenant {} Query({}, ns {:?}) found={} but its own model says {}", step, own, id, ns, r.found, exp.is_some());
                        }
                        if let Some(k) = check_meta(&r.metadata) {
                            viol!("reserved-key-in-response", "step {}: Query response to {} contains reserved key {}", step, own, k);
                        }
                        if let Some(d) = exp {
                            if public(&r.metadata) != d.meta {
                                viol!("foreign-or-wrong-metadata", "step {}: tenant {} Query({}) metadata {:?} != its own {:?}", step, own, id, r.metadata, d.meta);
                            }
                            if inc && r.embedding.iter().zip(d.vec.iter()).any(|(a, b)| (a - b).abs() > 1e-5) {
                                viol!("foreign-or-wrong-vector", "step {}: tenant {} Query({}) vector {:?} != its own {:?}", step, own, id, r.embedding, d.vec);
                            }
                        } else if !r.metadata.is_empty() || !r.embedding.is_empty() {
                            viol!("not-found-response-carries-data", "step {}: not-found Query response to {} carries data", step, own);
                        }
                    }
                    Err(e) => rpc_err!(e),
                }
            }
            40..=47 => {
                history.push(json!({"step":step,"t":own,"op":"bulk_query","ns":ns}));
                match ts[ti].cl.bulk_query(universe.clone(), true, &ns) {
                    Ok(r) => {
                        let mut found = 0;
                        for q in &r.results {
                            let exp = ts[ti].model.get(&q.doc_id).filter(|d| ns.is_empty() || d.ns == ns);
                            if q.found != exp.is_some() {
                                viol!("bulk-query-found-mismatch", "step {}: tenant {} BulkQuery id {} (ns {:?}) found={} own model {}", step, own, q.doc_id, ns, q.found, exp.is_some());
                            }
                            if let Some(k) = check_meta(&q.metadata) {
                                viol!("reserved-key-in-response", "step {}: BulkQuery response to {} contains reserved key {}", step, own, k);
                            }
                            if let Some(d) = exp {
                                found += 1;
                                if public(&q.metadata) != d.meta || q.embedding.iter().zip(d.vec.iter()).any(|(a, b)| (a - b).abs() > 1e-5) {
                                    viol!("foreign-or-wrong-document", "step {}: tenant {} BulkQuery id {} returned {:?}/{:?}, own {:?}", step, own, q.doc_id, q.embedding, q.metadata, d);
                                }
                            }
                        }
                        if r.total_found != found {
                            viol!("bulk-query-total-found", "step {}: tenant {} BulkQuery total_found {} != {}", step, own, r.total_found, found);
                        }
                    }
                    Err(e) => rpc_err!(e),
                }
            }
            48..=63 => {
                let q = rng.pick(&pool).clone();
                let k = rng.range(1, 5) as u32;
                let f = if rng.chance(0.5) { Some(gen_filter(&mut rng, &own, &other)) } else { None };
                let inc = rng.chance(0.3);
                let req = SearchRequest { query_embedding: q, k, min_score: 0.0, namespace: ns.clone(), include_embeddings: inc, ef_search: 0, filter: f.as_ref().map(|f| f.to_proto()), ..Default::default() };
                history.push(json!({"step":step,"t":own,"op":"search","k":k,"ns":ns,"filter":f.as_ref().map(|f| f.short())}));
                let bulk = rng.chance(0.25);
                let resp = if bulk {
                    match ts[ti].cl.bulk_search(vec![req]) {
                        Ok(mut v) if v.len() == 1 => match v.remove(0) {
                            Ok(r) => r,
                            Err(e) => rpc_err!(e),
                        },
                        Ok(v) => viol!("bulk-search-answer-count", "step {}: BulkSearch of 1 request returned {} answers", step, v.len()),
                        Err(e) => rpc_err!(e),
                    }
                } else {
                    match ts[ti].cl.search(req) {
                        Ok(r) => r,
                        Err(e) => rpc_err!(e),
                    }
                };
                let matching = ts[ti].matching(&ns, f.as_ref());
                if resp.results.len() > (k as usize).min(matching.len()) {
                    viol!("search-more-results-than-own-matching", "step {}: tenant {} Search returned {} results, k={} own matching documents {}", step, own, resp.results.len(), k, matching.len());
                }
                if resp.total_found as usize > matching.len() {
                    viol!("search-total-found-exceeds-own-matching", "step {}: tenant {} Search total_found {} > own matching {}", step, own, resp.total_found, matching.len());
                }
                for r in &resp.results {
                    if !matching.contains(&r.doc_id) {
                        viol!("search-returns-foreign-or-nonmatching-document", "step {}: tenant {} Search (ns {:?}, filter {:?}) returned id {} which is not among its own matching documents {:?}", step, own, ns, f.as_ref().map(|f| f.short()), r.doc_id, matching);
                    }
                    if let Some(k) = check_meta(&r.metadata) {
                        viol!("reserved-key-in-response", "step {}: Search response to {} contains reserved key {}", step, own, k);
                    }
                    let d = &ts[ti].model[&r.doc_id];
                    if public(&r.metadata) != d.meta {
                        viol!("foreign-or-wrong-metadata", "step {}: tenant {} Search result {} metadata {:?} != own {:?}", step, own, r.doc_id, r.metadata, d.meta);
                    }
                    if inc && (r.embedding.len() != d.vec.len() || r.embedding.iter().zip(d.vec.iter()).any(|(a, b)| (a - b).abs() > 1e-5)) {
                        viol!("foreign-or-wrong-vector", "step {}: tenant {} Search result {} vector {:?} != own {:?}", step, own, r.doc_id, r.embedding, d.vec);
                    }
                }
            }
            64..=73 => {
                let meta = gen_user_meta(&mut rng, &other);
                let merge = rng.chance(0.5);
                history.push(json!({"step":step,"t":own,"op":"update_metadata","id":id,"ns":ns,"merge":merge,"meta":meta}));
                match ts[ti].cl.update_metadata(id, meta.clone(), merge, &ns) {
                    Ok(r) => {
                        let hit = ts[ti].model.get(&id).map(|d| ns.is_empty() || d.ns == ns).unwrap_or(false);
                        if r.existed != hit {
                            viol!("update-existed-mismatch", "step {}: tenant {} UpdateMetadata({}, ns {:?}) existed={} own model {}", step, own, id, ns, r.existed, hit);
                        }
                        if hit {
                            let d = ts[ti].model.get_mut(&id).unwrap();
                            if merge {
                                for (k, v) in public(&meta) {
                                    d.meta.insert(k, v);
                                }
                            } else {
                                d.meta = public(&meta);
                            }
                        }
                    }
                    Err(e) => rpc_err!(e),
                }
            }
            74..=81 => {
                history.push(json!({"step":step,"t":own,"op":"delete","id":id,"ns":ns}));
                match ts[ti].cl.delete(id, &ns) {
                    Ok(r) => {
                        let hit = ts[ti].model.get(&id).map(|d| ns.is_empty() || d.ns == ns).unwrap_or(false);
                        if r.existed != hit {
                            viol!("delete-existed-mismatch", "step {}: tenant {} Delete({}, ns {:?}) existed={} own model {}", step, own, id, ns, r.existed, hit);
                        }
                        if hit {
                            ts[ti].model.remove(&id);
                        }
                    }
                    Err(e) => rpc_err!(e),
                }
            }
            82..=88 => {
                let by_filter = rng.chance(0.5);
                if by_filter {
                    let f = gen_filter(&mut rng, &own, &other);
                    history.push(json!({"step":step,"t":own,"op":"batch_delete_filter","ns":ns,"filter":f.short()}));
                    match ts[ti].cl.batch_delete_filter(f.to_proto(), &ns) {
                        Ok(r) => {
                            let m = ts[ti].matching(&ns, Some(&f));
                            if r.deleted_count != m.len() as u64 {
                                viol!("batch-delete-count-not-explained-by-own-documents", "step {}: tenant {} BatchDelete(filter {}, ns {:?}) deleted_count {} but {} of its own documents match", step, own, f.short(), ns, r.deleted_count, m.len());
                            }
                            for k in m {
                                ts[ti].model.remove(&k);
                            }
                        }
                        Err(e) => rpc_err!(e),
                    }
                } else {
                    let mut ids = vec![id, id, *rng.pick(&universe), id];
                    rng.shuffle(&mut ids);
                    history.push(json!({"step":step,"t":own,"op":"batch_delete_ids","ns":ns,"ids":ids}));
                    match ts[ti].cl.batch_delete_ids(ids.clone(), &ns) {
                        Ok(r) => {
                            let m: BTreeSet<u64> = ids.iter().copied().filter(|i| ts[ti].model.get(i).map(|d| ns.is_empty() || d.ns == ns).unwrap_or(false)).collect();
                            if r.deleted_count != m.len() as u64 {
                                viol!("batch-delete-count-not-explained-by-own-documents", "step {}: tenant {} BatchDelete(ids {:?}, ns {:?}) deleted_count {} own matching {}", step, own, ids, ns, r.deleted_count, m.len());
                            }
                            for k in m {
                                ts[ti].model.remove(&k);
                            }
                        }
                        Err(e) => rpc_err!(e),
                    }
                }
            }
            89..=90 => {
                history.push(json!({"step":step,"t":own,"op":"flush"}));
                let _ = ts[ti].cl.flush(rng.chance(0.5));
            }
            91..=92 => {
                // cross-tenant addressing: an id that carries another tenant's index in its upper
                // half (what the server uses internally) must be refused / not found on EVERY path
                // and must not touch any tenant's documents (final census judges the effect)
                let prefix = rng.range(1, 3);
                let xid = (prefix << 32) | id;
                let v = rng.pick(&pool).clone();
                let path = rng.below(8);
                let pname = ["insert", "bulk_insert", "bulk_load", "update_metadata", "delete", "batch_delete_ids", "query", "bulk_query"][path as usize];
                history.push(json!({"step":step,"t":own,"op":format!("foreign-prefix-{}", pname),"id":xid.to_string()}));
                let mut md = HashMap::new();
                md.insert("cat".to_string(), "x".to_string());
                let item = InsertRequest { doc_id: xid, embedding: v.clone(), metadata: md.clone(), namespace: String::new() };
                let accepted: bool = match path {
                    0 => matches!(ts[ti].cl.insert(xid, v, md, ""), Ok(r) if r.success),
                    1 => matches!(ts[ti].cl.bulk_insert(vec![item]), Ok(r) if r.total_inserted > 0),
                    2 => matches!(ts[ti].cl.bulk_load(vec![item]), Ok(r) if r.total_loaded > 0),
                    3 => matches!(ts[ti].cl.update_metadata(xid, md, true, ""), Ok(r) if r.existed),
                    4 => matches!(ts[ti].cl.delete(xid, ""), Ok(r) if r.existed),
                    5 => matches!(ts[ti].cl.batch_delete_ids(vec![xid], ""), Ok(r) if r.deleted_count > 0),
                    6 => matches!(ts[ti].cl.query(xid, true, ""), Ok(r) if r.found),
                    _ => matches!(ts[ti].cl.bulk_query(vec![xid], true, ""), Ok(r) if r.total_found > 0),
                };
                if accepted {
                    viol!(format!("foreign-prefix-id-accepted|{}", pname), "step {}: tenant {} {} with id {} (= prefix {} << 32 | {}) was accepted / found", step, own, pname, xid, prefix, id);
                }
            }
            93..=94 => {
                history.push(json!({"step":step,"t":own,"op":"snapshot"}));
                let _ = ts[ti].cl.snapshot("");
            }
            _ => {
                // authentication: every data RPC without a valid enabled key is refused
                let variants: Vec<(&str, Option<String>)> = vec![
                    ("missing", None),
                    ("unknown", Some(key_for("nobody"))),
                    ("disabled-tenant", Some(key_for("gone"))),
                    ("malformed", Some("kyro_acme".to_string())),
                    ("prefix-only", Some("kyro_acme_".to_string())),
                    ("empty", Some(String::new())),
                    ("truncated", Some({ let k = key_for("acme"); k[..k.len() - 1].to_string() })),
                    ("valid-plus-trailing-bytes", Some(format!("{}x", key_for("acme")))),
                    ("valid-key-other-case", Some(key_for("acme").to_uppercase())),
                    ("other-scheme", Some(format!("Basic {}", key_for("acme")))),
                ];
                let (name, key) = variants[rng.usize_below(variants.len())].clone();
                history.push(json!({"step":step,"op":"unauthenticated-probe","key":name}));
                let mut c = match srv.client(key) {
                    Ok(c) => c,
                    Err(e) => rpc_err!(e),
                };
                let v = pool[0].clone();
                let results: Vec<(&str, Option<Code>)> = vec![
                    ("Insert", c.insert(id, v.clone(), HashMap::new(), "").err().map(|e| e.code())),
                    ("Query", c.query(id, true, "").err().map(|e| e.code())),
                    ("BulkQuery", c.bulk_query(universe.clone(), true, "").err().map(|e| e.code())),
                    ("Search", c.search(SearchRequest { query_embedding: v.clone(), k: 3, ..Default::default() }).err().map(|e| e.code())),
                    ("Delete", c.delete(id, "").err().map(|e| e.code())),
                    ("BatchDelete", c.batch_delete_ids(vec![id], "").err().map(|e| e.code())),
                    ("UpdateMetadata", c.update_metadata(id, HashMap::new(), true, "").err().map(|e| e.code())),
                    ("BulkInsert", c.bulk_insert(vec![InsertRequest { doc_id: id, embedding: v.clone(), ..Default::default() }]).err().map(|e| e.code())),
                    ("BulkLoadHnsw", c.bulk_load(vec![InsertRequest { doc_id: id, embedding: v.clone(), ..Default::default() }]).err().map(|e| e.code())),
                    ("BulkSearch", c.bulk_search(vec![SearchRequest { query_embedding: v.clone(), k: 3, ..Default::default() }]).err().map(|e| e.code())),
                    ("FlushHotTier", c.flush(true).err().map(|e| e.code())),
                ];
                rpcs += results.len() as u64;
                for (rpc, code) in results {
                    // a connection-level failure is not an answer of the server at all
                    if matches!(code, Some(Code::Unknown) | Some(Code::Unavailable) | Some(Code::Cancelled) | Some(Code::DeadlineExceeded)) {
                        out.inconclusive(format!("case {}: {} with a {} key failed at the connection level ({:?})", idx, rpc, name, code));
                        return;
                    }
                    if code != Some(Code::Unauthenticated) {
                        viol!(format!("rpc-served-without-valid-key|{}", rpc), "step {}: {} with a {} key answered {:?} instead of UNAUTHENTICATED", step, rpc, name, code);
                    }
                }
                // /usage: self scope is scoped to the caller; scope=all needs an admin key
                match srv.http_get("/usage?scope=all", Some(&key_for(&own))) {
                    Some((403, _)) => {}
                    other => viol!("usage-all-served-to-non-admin", "step {}: /usage?scope=all with a non-admin key answered {:?}", step, other.map(|x| x.0)),
                }
                match srv.http_get("/usage", Some(&key_for(&own))) {
                    Some((200, body)) => {
                        if body.contains(&format!("\"{}\"", other)) {
                            viol!("usage-leaks-other-tenant", "step {}: /usage (self) for {} mentions tenant {}: {}", step, own, other, body.chars().take(300).collect::<String>());
                        }
                        // every number in the report must be the caller's own: rows only for the caller, and
                        // the totals equal to the caller's row (fleet-wide totals reveal other tenants' activity)
                        let j: Value = serde_json::from_str(&body).unwrap_or(Value::Null);
                        let rows: Vec<Value> = j["tenants"].as_array().cloned().unwrap_or_default();
                        if rows.iter().any(|r| r["tenant_id"].as_str() != Some(own.as_str())) || rows.len() > 1 {
                            viol!("usage-leaks-other-tenant", "step {}: /usage (self) for {} carries rows of other tenants: {}", step, own, body.chars().take(300).collect::<String>());
                        }
                        for key in ["query_count", "vector_count", "storage_bytes", "billable_events"] {
                            let mine = rows.first().map(|r| r[key].as_u64().unwrap_or(0)).unwrap_or(0);
                            let total = j["totals"][key].as_u64().unwrap_or(0);
                            if total != mine {
                                viol!("usage-totals-include-other-tenants", "step {}: /usage (self) for {} reports totals.{} = {} but the caller's own {} is {}", step, own, key, total, key, mine);
                            }
                        }
                    }
                    other => viol!("usage-self-refused", "step {}: /usage with a valid tenant key answered {:?}", step, other.map(|x| x.0)),
                }
                match srv.http_get("/usage", None) {
                    Some((401, _)) => {}
                    other => viol!("usage-served-without-key", "step {}: /usage without a key answered {:?}", step, other.map(|x| x.0)),
                }
            }
        }
    }
    // census per tenant and namespace selector
    for ti in 0..2 {
        for ns in NSS.iter() {
            match ts[ti].cl.bulk_query(universe.clone(), true, ns) {
                Ok(r) => {
                    for q in r.results {
                        let exp = ts[ti].model.get(&q.doc_id).filter(|d| ns.is_empty() || d.ns == *ns);
                        let ok = match exp {
                            None => !q.found,
                            Some(d) => q.found && public(&q.metadata) == d.meta && !q.embedding.iter().zip(d.vec.iter()).any(|(a, b)| (a - b).abs() > 1e-5),
                        };
                        if !ok {
                            viol!("final-census-mismatch", "final census of tenant {} (ns {:?}) id {}: got found={} {:?}, own model {:?}", ts[ti].id, ns, q.doc_id, q.found, q.metadata, exp);
                        }
                    }
                }
                Err(e) => rpc_err!(e),
            }
        }
    }
    out.eval();
    out.count("rpc_calls", rpcs);
    out.distinct(&(idx, history.len()));
    if idx % 7 == 0 {
        out.sample(json!({"case": idx, "steps": history.len(), "tail": history.iter().rev().take(4).collect::<Vec<_>>()}));
    }
}

/// Count non-interference: A's identical, tombstone-free workload alone vs interleaved with B.
fn two_world_case(seed: u64, idx: usize, bin: &str, rt: &std::sync::Arc<tokio::runtime::Runtime>, out: &mut Out) {
    let dim = 4;
    let mut observations: Vec<Vec<Value>> = Vec::new();
    let mut desc = json!({});
    for world in 0..2 {
        let mut rng = Rng::derive(seed, idx as u64, 0x2C10);
        let mut cfg = base_cfg(dim, &mut rng);
        cfg.query_cache_threshold = 1.0;
        cfg.ef_search = 2000;
        let mut srv = Srv::new(cfg, bin, rt.clone());
        if let Err(e) = srv.start() {
            out.inconclusive(format!("server start failed: {}", e));
            return;
        }
        let (mut a, mut b) = match (srv.tenant_client("acme"), srv.tenant_client("beta")) {
            (Ok(a), Ok(b)) => (a, b),
            _ => {
                out.inconclusive("client");
                return;
            }
        };
        let n = rng.range(4, 12);
        let k = rng.range(1, 5) as u32;
        let docs: Vec<Vec<f32>> = (0..n).map(|_| gen_unit_vec(&mut rng, dim)).collect();
        let queries: Vec<Vec<f32>> = (0..4).map(|i| if i % 2 == 0 { docs[rng.usize_below(docs.len())].clone() } else { gen_unit_vec(&mut rng, dim) }).collect();
        let b_copies = rng.range(1, 3);
        desc = json!({"check":"C10","leg":"two-world","seed":seed,"case":idx,"a_docs":n,"k":k,"b_copies_per_doc":b_copies});
        let mut obs = Vec::new();
        for (i, d) in docs.iter().enumerate() {
            let mut m = HashMap::new();
            m.insert("cat".to_string(), if i % 2 == 0 { "x" } else { "y" }.to_string());
            if a.insert(i as u64 + 1, d.clone(), m, "").is_err() {
                out.inconclusive("insert failed");
                return;
            }
            if world == 1 {
                // B writes identical and nearby vectors under its own ids
                for c in 0..b_copies {
                    let mut v = d.clone();
                    if c > 0 {
                        v[0] += 0.001 * c as f32;
                        let nn = v.iter().map(|x| x * x).sum::<f32>().sqrt();
                        for x in v.iter_mut() {
                            *x /= nn;
                        }
                    }
                    let _ = b.insert((i as u64 + 1) + 100 * c, v, HashMap::new(), "");
                }
            }
        }
        for q in &queries {
            for f in [None, Some(F::Exact("cat".into(), "x".into()))] {
                let req = SearchRequest { query_embedding: q.clone(), k, filter: f.as_ref().map(|f| f.to_proto()), ..Default::default() };
                match a.search(req) {
                    Ok(r) => obs.push(json!({"search_results": r.results.iter().map(|x| x.doc_id).collect::<Vec<_>>(), "total_found": r.total_found, "filter": f.as_ref().map(|f| f.short())})),
                    Err(e) => {
                        out.inconclusive(format!("search failed: {}", e));
                        return;
                    }
                }
            }
        }
        match a.bulk_query((1..=n + 2).collect(), false, "") {
            Ok(r) => obs.push(json!({"bulk_query_found": r.total_found})),
            Err(_) => {}
        }
        observations.push(obs);
    }
    out.eval();
    out.distinct(&(idx, desc.to_string()));
    if observations.len() == 2 && observations[0] != observations[1] {
        let first = observations[0].iter().zip(observations[1].iter()).find(|(x, y)| x != y).map(|(x, y)| format!("alone: {} / with other tenant: {}", x, y)).unwrap_or_default();
        let counts_only = observations[0].iter().zip(observations[1].iter()).all(|(x, y)| {
            x == y || (x.get("search_results").is_some() && {
                // same world-1 results must be a subset story: fewer results / smaller total_found
                let xa: Vec<u64> = x["search_results"].as_array().map(|a| a.iter().filter_map(|v| v.as_u64()).collect()).unwrap_or_default();
                let ya: Vec<u64> = y["search_results"].as_array().map(|a| a.iter().filter_map(|v| v.as_u64()).collect()).unwrap_or_default();
                ya.len() <= xa.len() && ya.iter().all(|i| xa.contains(i)) && y["total_found"].as_u64() <= x["total_found"].as_u64()
            })
        });
        out.violation(
            if counts_only { "search-result-count-depends-on-other-tenant".to_string() } else { "response-depends-on-other-tenant".to_string() },
            format!("case {}: tenant acme's identical workload observes different responses when tenant beta writes identical/nearby vectors: {}", idx, first),
            json!({"schedule": desc, "alone": observations[0], "with_other_tenant": observations[1]}),
        );
    }
    if idx % 5 == 0 {
        out.sample(json!({"leg":"two-world","case":desc}));
    }
}


/// Tenant provisioning across restarts: tenants with one or two enabled keys (rotation overlap), new
/// tenants added to the key file between restarts, on the same data directory. Every tenant's census
/// must equal its own model after every restart: a newly provisioned tenant starts empty and its
/// writes / deletes never touch another tenant's documents; both keys of a tenant see the same data.
fn provisioning_case(seed: u64, idx: usize, bin: &str, rt: &std::sync::Arc<tokio::runtime::Runtime>, out: &mut Out) {
    let mut rng = Rng::derive(seed, idx as u64, 0xC10_7);
    let dim = 4;
    let all = ["t_a", "t_b", "t_c", "t_d", "t_e"];
    let mut active = rng.range(1, 3) as usize;
    let two_keys: Vec<String> = all.iter().filter(|_| rng.chance(0.4)).map(|s| s.to_string()).collect();
    let mk_cfg = |active: usize, rng: &mut Rng| SrvCfg {
        dim,
        tenants: all[..active].iter().map(|id| TenantSpec { id: id.to_string(), max_vectors: 10_000, max_qps: 0, enabled: true, admin: false }).collect(),
        fsync: "data_only",
        snapshot_interval: *rng.pick(&[3u64, 1000]),
        second_key_for: two_keys.clone(),
        ..Default::default()
    };
    let mut srv = Srv::new(mk_cfg(active, &mut rng), bin, rt.clone());
    if let Err(e) = srv.start() {
        out.inconclusive(format!("server start failed: {}", e));
        return;
    }
    let desc = json!({"check":"C10","leg":"provisioning","seed":seed,"case":idx,"two_keys":two_keys});
    let mut models: BTreeMap<String, BTreeMap<u64, (Vec<f32>, String)>> = BTreeMap::new();
    let mut history: Vec<Value> = Vec::new();
    let ids: Vec<u64> = (1..=4).collect();
    let rounds = rng.range(2, 4);
    for round in 0..rounds {
        // writes by every active tenant (colliding local ids), through either of its keys
        for t in &all[..active] {
            let key = if two_keys.contains(&t.to_string()) && rng.chance(0.5) { second_key_for(t) } else { key_for(t) };
            let Ok(mut cl) = srv.client(Some(key)) else { continue };
            for _ in 0..rng.range(1, 4) {
                let id = *rng.pick(&ids);
                if rng.chance(0.75) {
                    let v = gen_unit_vec(&mut rng, dim);
                    let tag = format!("{}-{}-{}", t, round, id);
                    let mut md = HashMap::new();
                    md.insert("tag".to_string(), tag.clone());
                    history.push(json!({"round":round,"t":t,"op":"insert","id":id}));
                    if matches!(cl.insert(id, v.clone(), md, ""), Ok(r) if r.success) {
                        models.entry(t.to_string()).or_default().insert(id, (v, tag));
                    }
                } else {
                    history.push(json!({"round":round,"t":t,"op":"delete","id":id}));
                    if cl.delete(id, "").is_ok() {
                        models.entry(t.to_string()).or_default().remove(&id);
                    }
                }
            }
        }
        // census of every active tenant through every one of its keys
        for t in &all[..active] {
            let mut keys = vec![key_for(t)];
            if two_keys.contains(&t.to_string()) {
                keys.push(second_key_for(t));
            }
            for (ki, key) in keys.into_iter().enumerate() {
                let Ok(mut cl) = srv.client(Some(key)) else { continue };
                for id in &ids {
                    let exp = models.get(*t).and_then(|m| m.get(id));
                    match cl.query(*id, true, "") {
                        Ok(q) => {
                            let ok = match exp {
                                None => !q.found,
                                Some((v, tag)) => q.found && q.metadata.get("tag") == Some(tag) && !q.embedding.iter().zip(v.iter()).any(|(a, b)| (a - b).abs() > 1e-5),
                            };
                            if !ok {
                                out.violation(
                                    "provisioning-census-mismatch",
                                    format!("round {}: tenant {} (key #{}) Query({}) = found {} tag {:?}; its own model says {:?}; tenants active {:?}, two keys {:?}", round, t, ki, id, q.found, q.metadata.get("tag"), exp.map(|e| &e.1), &all[..active], two_keys),
                                    json!({"desc":desc,"history":history}),
                                );
                                srv.kill9();
                                return;
                            }
                        }
                        Err(e) => {
                            out.inconclusive(format!("census query failed: {}", e));
                            srv.kill9();
                            return;
                        }
                    }
                }
            }
        }
        // provision 0-2 new tenants and restart (graceful or SIGKILL) on the same data directory
        if round + 1 < rounds {
            active = (active + rng.range(0, 2) as usize).min(all.len());
            if rng.chance(0.5) {
                let _ = srv.term();
            } else {
                srv.kill9();
            }
            srv.cfg = mk_cfg(active, &mut rng);
            history.push(json!({"round":round,"op":"restart","active":active}));
            if let Err(e) = srv.start() {
                if e.contains("exited during start-up") {
                    out.violation("provisioning-restart-failed", format!("server does not start after adding tenants: {}", e), json!({"desc":desc,"history":history}));
                } else {
                    out.inconclusive(format!("restart watchdog: {}", e));
                }
                return;
            }
        }
    }
    srv.kill9();
    out.eval();
    out.distinct(&(idx, history.len()));
    out.count("provisioning_rounds", rounds);
    if idx % 8 == 0 {
        out.sample(json!({"case":desc,"rounds":rounds,"tenants_at_end":active}));
    }
}
