//! C11 metadata filters select exactly the matching documents.
//!
//! Three-way differential after every step of a history: the engine's index-backed selection
//! (`ids_for_metadata_filter`), the engine's own predicate (`scan(matches)`), and an independent
//! reference evaluator over the sequential model. Filtered batch deletes through TieredEngine are
//! judged by the resulting collection.

use crate::model::*;
use crate::util::*;
use kyrodb_engine::config::DistanceMetric;
use kyrodb_engine::persistence::FsyncPolicy;
use kyrodb_engine::proto::{
    metadata_filter::FilterType, range_match::Bound, AndFilter, ExactMatch, InMatch,
    MetadataFilter, NotFilter, OrFilter, RangeMatch,
};
use serde_json::{json, Value};
use std::collections::BTreeSet;

/// harness-side filter tree (independent of the proto type)
#[derive(Clone, Debug, Hash, PartialEq, Eq)]
pub enum F {
    Empty,
    Exact(String, String),
    In(String, Vec<String>),
    /// op: 0 gte, 1 lte, 2 gt, 3 lt, 4 none
    Range(String, u8, String),
    And(Vec<F>),
    Or(Vec<F>),
    Not(Option<Box<F>>),
}

impl F {
    pub fn to_proto(&self) -> MetadataFilter {
        let ft = match self {
            F::Empty => None,
            F::Exact(k, v) => Some(FilterType::Exact(ExactMatch {
                key: k.clone(),
                value: v.clone(),
            })),
            F::In(k, vs) => Some(FilterType::InMatch(InMatch {
                key: k.clone(),
                values: vs.clone(),
            })),
            F::Range(k, op, b) => Some(FilterType::Range(RangeMatch {
                key: k.clone(),
                bound: match op {
                    0 => Some(Bound::Gte(b.clone())),
                    1 => Some(Bound::Lte(b.clone())),
                    2 => Some(Bound::Gt(b.clone())),
                    3 => Some(Bound::Lt(b.clone())),
                    _ => None,
                },
            })),
            F::And(fs) => Some(FilterType::AndFilter(AndFilter {
                filters: fs.iter().map(|f| f.to_proto()).collect(),
            })),
            F::Or(fs) => Some(FilterType::OrFilter(OrFilter {
                filters: fs.iter().map(|f| f.to_proto()).collect(),
            })),
            F::Not(f) => Some(FilterType::NotFilter(Box::new(NotFilter {
                filter: f.as_ref().map(|f| Box::new(f.to_proto())),
            }))),
        };
        MetadataFilter { filter_type: ft }
    }
    pub fn short(&self) -> String {
        let t = |s: &String| -> String {
            if s.len() > 24 {
                format!("{}..({}B)", &s.chars().take(8).collect::<String>(), s.len())
            } else {
                s.clone()
            }
        };
        match self {
            F::Empty => "EMPTY".into(),
            F::Exact(k, v) => format!("{}=={:?}", k, t(v)),
            F::In(k, vs) => format!("{} in {:?}", k, vs.iter().map(t).collect::<Vec<_>>()),
            F::Range(k, op, b) => format!("{} {} {:?}", k, ["gte", "lte", "gt", "lt", "nobound"][*op as usize], t(b)),
            F::And(fs) => format!("AND({})", fs.iter().map(|f| f.short()).collect::<Vec<_>>().join(", ")),
            F::Or(fs) => format!("OR({})", fs.iter().map(|f| f.short()).collect::<Vec<_>>().join(", ")),
            F::Not(None) => "NOT()".into(),
            F::Not(Some(f)) => format!("NOT({})", f.short()),
        }
    }
}

/// Reference semantics (documented behaviour): exact / in = string equality on a present key;
/// range = numeric comparison iff both value and bound parse as f64 (NaN compares false),
/// otherwise byte-lexicographic; missing key = false; range without bound = key present;
/// empty filter = true; empty AND = true; empty OR = false; NOT without operand = false.
pub fn reference(f: &F, m: &Meta) -> bool {
    match f {
        F::Empty => true,
        F::Exact(k, v) => m.get(k).map(|x| x == v).unwrap_or(false),
        F::In(k, vs) => m.get(k).map(|x| vs.iter().any(|v| v == x)).unwrap_or(false),
        F::Range(k, op, b) => {
            let Some(x) = m.get(k) else { return false };
            if *op == 4 {
                return true;
            }
            if let (Ok(xv), Ok(bv)) = (x.parse::<f64>(), b.parse::<f64>()) {
                match op {
                    0 => xv >= bv,
                    1 => xv <= bv,
                    2 => xv > bv,
                    _ => xv < bv,
                }
            } else {
                let (xb, bb) = (x.as_bytes(), b.as_bytes());
                match op {
                    0 => xb >= bb,
                    1 => xb <= bb,
                    2 => xb > bb,
                    _ => xb < bb,
                }
            }
        }
        F::And(fs) => fs.iter().all(|f| reference(f, m)),
        F::Or(fs) => fs.iter().any(|f| reference(f, m)),
        F::Not(None) => false,
        F::Not(Some(f)) => !reference(f, m),
    }
}

pub fn value_classes() -> Vec<String> {
    let mut v: Vec<String> = [
        "0", "-0", "+0", "0.0", "1", "-1", "+1", "2", "10", "9", "007", "2.5", "-2.5", ".5", "5.", "1e3", "1E-2",
        "1000", "inf", "+inf", "-inf", "infinity", "-Infinity", "NaN", "nan", "-nan", "", " ", " 1", "1 ", "1,5",
        "0x10", "1_0", "--1", "1e", "e1", "abc", "ABC", "a", "b", "Z", "10a", "é", "日本", "\u{0}", "~",
        "2023-01-01", "2023-01-02", "1e309", "-1e309", "4.9e-324", "1e-400", "9007199254740993",
        "9007199254740992",
    ]
    .iter()
    .map(|s| s.to_string())
    .collect();
    v.push("9".repeat(10_000));
    v.push(format!("a{}", "b".repeat(10_000)));
    v
}

const KEYS: [&str; 3] = ["a", "b", "c"];

fn gen_value(rng: &mut Rng, vals: &[String]) -> String {
    rng.pick(vals).clone()
}

fn gen_leaf(rng: &mut Rng, vals: &[String]) -> F {
    let k = rng.pick(&KEYS).to_string();
    match rng.below(10) {
        0..=2 => F::Exact(k, gen_value(rng, vals)),
        3..=4 => {
            let n = rng.below(4);
            F::In(k, (0..n).map(|_| gen_value(rng, vals)).collect())
        }
        5..=8 => F::Range(k, rng.below(4) as u8, gen_value(rng, vals)),
        _ => F::Range(k, 4, String::new()),
    }
}

pub fn gen_filter(rng: &mut Rng, vals: &[String], depth: usize) -> F {
    if depth == 0 || rng.chance(0.3) {
        return match rng.below(12) {
            0 => F::Empty,
            1 => F::And(vec![]),
            2 => F::Or(vec![]),
            3 => F::Not(None),
            _ => gen_leaf(rng, vals),
        };
    }
    match rng.below(3) {
        0 => F::And((0..rng.range(1, 3)).map(|_| gen_filter(rng, vals, depth - 1)).collect()),
        1 => F::Or((0..rng.range(1, 3)).map(|_| gen_filter(rng, vals, depth - 1)).collect()),
        _ => F::Not(Some(Box::new(gen_filter(rng, vals, depth - 1)))),
    }
}

fn gen_meta_rich(rng: &mut Rng, vals: &[String]) -> Meta {
    let mut m = Meta::new();
    for k in KEYS.iter() {
        if rng.chance(0.6) {
            m.insert(k.to_string(), gen_value(rng, vals));
        }
    }
    m
}

/// all leaves over a reduced alphabet (for the exhaustive small-scope enumeration)
fn all_leaves(keys: &[&str], vals: &[String]) -> Vec<F> {
    let mut out = vec![F::Empty, F::And(vec![]), F::Or(vec![]), F::Not(None)];
    for k in keys {
        out.push(F::Range(k.to_string(), 4, String::new()));
        for v in vals {
            out.push(F::Exact(k.to_string(), v.clone()));
            for op in 0..4u8 {
                out.push(F::Range(k.to_string(), op, v.clone()));
            }
        }
        out.push(F::In(k.to_string(), vec![]));
        out.push(F::In(k.to_string(), vals.iter().take(2).cloned().collect()));
    }
    out
}

fn three_way(b: &kyrodb_engine::HnswBackend, model: &Model, f: &F) -> Result<usize, String> {
    let pf = f.to_proto();
    let via_index: BTreeSet<u64> = b.ids_for_metadata_filter(&pf).into_iter().collect();
    let via_scan: BTreeSet<u64> = b
        .scan(|m| kyrodb_engine::metadata_filter::matches(&pf, m))
        .into_iter()
        .collect();
    let via_ref: BTreeSet<u64> = model
        .docs
        .iter()
        .filter(|(_, d)| reference(f, &d.meta))
        .map(|(k, _)| *k)
        .collect();
    if via_index != via_ref || via_scan != via_ref {
        return Err(format!(
            "filter {} selects index={:?} scan(matches)={:?} reference={:?}",
            f.short(),
            via_index,
            via_scan,
            via_ref
        ));
    }
    Ok(via_ref.len())
}

pub fn run(args: &Args) -> Out {
    let leg = args.get("leg").unwrap_or("histories").to_string();
    let mut out = Out::new("C11", &leg);
    if let Some(p) = &args.replay {
        let v: Value = serde_json::from_str(&std::fs::read_to_string(p).expect("replay")).expect("json");
        let r = &v["replay"];
        let idx = r["case"].as_u64().unwrap_or(0) as usize;
        let seed = r["seed"].as_u64().unwrap_or(1);
        match v["leg"].as_str().unwrap_or("histories") {
            "filtered-delete" => run_delete_case(seed, idx, &mut out),
            "exhaustive" => run_exhaustive(seed, 0, 1, r["thorough"].as_bool().unwrap_or(false), &mut out),
            _ => run_history_case(seed, idx, r["thorough"].as_bool().unwrap_or(false), &mut out),
        }
        return out;
    }
    match leg.as_str() {
        "histories" => {
            let n = args.n(16_000, 160_000);
            for idx in 0..n {
                if args.mine(idx) {
                    run_history_case(args.seed, idx, args.thorough, &mut out);
                }
            }
        }
        "filtered-delete" => {
            let n = args.n(32_000, 320_000);
            for idx in 0..n {
                if args.mine(idx) {
                    run_delete_case(args.seed, idx, &mut out);
                }
            }
        }
        "exhaustive" => run_exhaustive(args.seed, args.shard, args.nshards, args.thorough, &mut out),
        _ => {}
    }
    out
}

fn run_history_case(seed: u64, idx: usize, thorough: bool, out: &mut Out) {
    let mut rng = Rng::derive(seed, idx as u64, 0xC11);
    let vals = value_classes();
    // per-case value pool: a handful of classes so that documents and filters collide often
    let pool: Vec<String> = (0..rng.range(4, 10)).map(|_| gen_value(&mut rng, &vals)).collect();
    let scratch = Scratch::new("c11");
    let dir = scratch.sub("data");
    let n_ids = rng.range(3, 8);
    let cfg = EngCfg {
        dim: 2,
        metric: DistanceMetric::Euclidean,
        capacity: *rng.pick(&[6usize, 16, 10_000]),
        snapshot_interval: *rng.pick(&[0usize, 3, 1000]),
        max_wal: *rng.pick(&[128u64, 1 << 20]),
        fsync: FsyncPolicy::Never,
        tiered: false,
        hot_soft: 2,
        hot_hard: 4,
    };
    let mut eng = match Eng::create(&cfg, &dir) {
        Ok(e) => e,
        Err(e) => {
            out.violation("create-failed", format!("{:#}", e), json!({"seed": seed, "case": idx}));
            return;
        }
    };
    let mut model = Model::default();
    let mut history: Vec<Value> = Vec::new();
    let len = if thorough { rng.range(20, 50) } else { rng.range(12, 30) } as usize;
    let mut filters_checked = 0u64;
    let mut nonempty = 0u64;
    let mut kinds = BTreeSet::new();
    for step in 0..len {
        let live: Vec<u64> = model.docs.keys().copied().collect();
        let pick_id = |rng: &mut Rng| -> u64 {
            if !live.is_empty() && rng.chance(0.7) {
                *rng.pick(&live)
            } else {
                rng.below(n_ids)
            }
        };
        let r = rng.below(100);
        let desc;
        if r < 40 {
            let id = pick_id(&mut rng);
            let meta = gen_meta_rich(&mut rng, &pool);
            let v = gen_vec(&mut rng, 2, cfg.metric);
            desc = json!({"op":"insert","id":id,"meta":meta.iter().map(|(k,v)| (k.clone(), v.chars().take(40).collect::<String>())).collect::<Meta>()});
            if eng.insert(id, v.clone(), &meta).is_ok() {
                model.apply_insert(id, bits(&v), meta);
            }
            kinds.insert("insert");
        } else if r < 65 {
            let id = pick_id(&mut rng);
            let meta = gen_meta_rich(&mut rng, &pool);
            let merge = rng.chance(0.5);
            desc = json!({"op":"update","id":id,"merge":merge,"meta":meta.iter().map(|(k,v)| (k.clone(), v.chars().take(40).collect::<String>())).collect::<Meta>()});
            if let Ok(true) = eng.update_metadata(id, &meta, merge) {
                model.apply_update(id, &meta, merge);
            }
            kinds.insert("update");
        } else if r < 80 {
            let id = pick_id(&mut rng);
            desc = json!({"op":"delete","id":id});
            if eng.delete(id).is_ok() {
                model.apply_delete(id);
            }
            kinds.insert("delete");
        } else if r < 88 {
            let ids: Vec<u64> = (0..rng.range(1, 3)).map(|_| pick_id(&mut rng)).collect();
            desc = json!({"op":"batch_delete","ids":ids});
            if eng.batch_delete(&ids).is_ok() {
                for id in &ids {
                    model.apply_delete(*id);
                }
            }
            kinds.insert("batch_delete");
        } else if r < 94 {
            desc = json!({"op":"restart"});
            drop(eng);
            eng = match Eng::recover(&cfg, &dir) {
                Ok(e) => e,
                Err(e) => {
                    out.violation("recover-failed", format!("step {}: {:#}", step, e), json!({"check":"C11","seed": seed, "case": idx, "thorough": thorough, "history": history}));
                    return;
                }
            };
            kinds.insert("restart");
        } else {
            desc = json!({"op":"snapshot"});
            let _ = eng.snapshot();
            kinds.insert("snapshot");
        }
        history.push(desc);
        // liveness agreement first (S)
        let s = shape_invariants(eng.cold());
        if !s.is_empty() {
            out.violation("shape", format!("step {}: {:?}", step, s), json!({"check":"C11","seed": seed, "case": idx, "thorough": thorough, "history": history}));
            return;
        }
        // a batch of filters: pool-biased random trees of depth 0..4
        let nf = if thorough { 40 } else { 24 };
        for _ in 0..nf {
            let depth = rng.usize_below(5);
            let use_pool = rng.chance(0.8);
            let f = gen_filter(&mut rng, if use_pool { &pool } else { &vals }, depth);
            match three_way(eng.cold(), &model, &f) {
                Ok(n) => {
                    filters_checked += 1;
                    if n > 0 && n < model.docs.len() {
                        nonempty += 1;
                    }
                }
                Err(e) => {
                    out.violation(
                        "filter-selection-mismatch",
                        format!("step {}: {}", step, e),
                        json!({"check":"C11","seed": seed, "case": idx, "thorough": thorough, "history": history, "filter": format!("{:?}", f).chars().take(2000).collect::<String>()}),
                    );
                    return;
                }
            }
        }
    }
    out.eval();
    out.count("filters_evaluated", filters_checked);
    out.count("filters_selecting_proper_subset", nonempty);
    if kinds.len() >= 3 && nonempty > 0 {
        out.distinct(&(idx, history.iter().map(|h| h.to_string()).collect::<Vec<_>>()));
    }
    if idx % 397 == 0 {
        out.sample(json!({"case": idx, "pool": pool.iter().map(|v| v.chars().take(20).collect::<String>()).collect::<Vec<_>>(), "history": history.iter().take(5).collect::<Vec<_>>(), "filters_evaluated": filters_checked}));
    }
}

/// Exhaustive small scope: every filter tree up to depth 2 (quick) / depth 2 on a wider alphabet
/// plus NOT/AND/OR of all pairs (thorough) over a fixed small collection that exercises every value class.
fn run_exhaustive(seed: u64, shard: usize, nshards: usize, thorough: bool, out: &mut Out) {
    let vals: Vec<String> = if thorough {
        ["0", "-0", "1", "10", "9", "2.5", "1e3", "inf", "-inf", "NaN", "", " 1", "abc", "a", "+1", "é"]
            .iter()
            .map(|s| s.to_string())
            .collect()
    } else {
        ["0", "-0", "10", "9", "NaN", "inf", "", "abc", "+1"].iter().map(|s| s.to_string()).collect()
    };
    let keys: Vec<&str> = if thorough { vec!["a", "b"] } else { vec!["a", "b"] };
    let mut rng = Rng::derive(seed, 0, 0xE11);
    // collection: docs covering every value on key a, random on b, some without keys
    let mut docs: Vec<(u64, Meta)> = Vec::new();
    for (i, v) in vals.iter().enumerate() {
        let mut m = Meta::new();
        m.insert("a".into(), v.clone());
        if i % 2 == 0 {
            m.insert("b".into(), rng.pick(&vals).clone());
        }
        docs.push((i as u64, m));
    }
    docs.push((100, Meta::new()));
    let mut m = Meta::new();
    m.insert("b".into(), "10".into());
    docs.push((101, m));
    let b = kyrodb_engine::HnswBackend::new(2, DistanceMetric::Euclidean, vec![], vec![], 1000).expect("backend");
    let mut model = Model::default();
    for (id, m) in &docs {
        let v = vec![*id as f32 + 1.0, 1.0];
        b.insert(*id, v.clone(), to_hm(m)).expect("insert");
        model.apply_insert(*id, bits(&v), m.clone());
    }
    // make tombstones and overwritten slots part of the picture
    b.delete(0).expect("delete");
    model.apply_delete(0);
    let mut m2 = Meta::new();
    m2.insert("a".into(), "abc".into());
    b.update_metadata(1, to_hm(&m2), false).expect("update");
    model.apply_update(1, &m2, false);

    let leaves = all_leaves(&keys, &vals);
    let mut all: Vec<F> = leaves.clone();
    for l in &leaves {
        all.push(F::Not(Some(Box::new(l.clone()))));
        all.push(F::And(vec![l.clone()]));
        all.push(F::Or(vec![l.clone()]));
    }
    let total_pairs = leaves.len() * leaves.len();
    let mut count = 0usize;
    let mut check = |f: &F, out: &mut Out| -> bool {
        out.eval();
        match three_way(&b, &model, f) {
            Ok(n) => {
                if n > 0 && n < model.docs.len() {
                    out.distinct(f);
                }
                true
            }
            Err(e) => {
                out.violation("filter-selection-mismatch", format!("exhaustive: {}", e), json!({"check":"C11","leg":"exhaustive","seed":seed,"thorough":thorough,"filter": format!("{:?}", f)}));
                false
            }
        }
    };
    for (i, f) in all.iter().enumerate() {
        if i % nshards == shard && !check(f, out) {
            return;
        }
    }
    for i in 0..leaves.len() {
        for j in 0..leaves.len() {
            count += 1;
            if count % nshards != shard {
                continue;
            }
            for f in [
                F::And(vec![leaves[i].clone(), leaves[j].clone()]),
                F::Or(vec![leaves[i].clone(), leaves[j].clone()]),
                F::And(vec![leaves[i].clone(), F::Not(Some(Box::new(leaves[j].clone())))]),
                F::Not(Some(Box::new(F::Or(vec![leaves[i].clone(), leaves[j].clone()])))),
            ] {
                if !check(&f, out) {
                    return;
                }
            }
        }
    }
    out.count("exhaustive_leaf_count", if shard == 0 { leaves.len() as u64 } else { 0 });
    out.count("exhaustive_pairs_total", if shard == 0 { total_pairs as u64 } else { 0 });
    if shard == 0 {
        out.sample(json!({"leg":"exhaustive","leaves": leaves.len(), "docs": docs.len(), "example": leaves[7].short()}));
    }
}

/// Filtered batch delete through the TieredEngine removes exactly the reference set.
fn run_delete_case(seed: u64, idx: usize, out: &mut Out) {
    use kyrodb_engine::{LruCacheStrategy, QueryHashCache, TieredEngine};
    use std::sync::Arc;
    let mut rng = Rng::derive(seed, idx as u64, 0xD11);
    let vals = value_classes();
    let pool: Vec<String> = (0..rng.range(3, 7)).map(|_| gen_value(&mut rng, &vals)).collect();
    let n_ids = rng.range(3, 7);
    let cfg = EngCfg {
        dim: 2,
        metric: DistanceMetric::Euclidean,
        capacity: 10_000,
        snapshot_interval: 0,
        max_wal: 1 << 20,
        fsync: FsyncPolicy::Never,
        tiered: true,
        hot_soft: *rng.pick(&[1usize, 3, 100]),
        hot_hard: 200,
    };
    let engine = match TieredEngine::new(
        Box::new(LruCacheStrategy::new(4)),
        Arc::new(QueryHashCache::new(4, 1.0)),
        vec![],
        vec![],
        cfg.tiered_config(None),
    ) {
        Ok(e) => e,
        Err(e) => {
            out.violation("create-failed", format!("{:#}", e), json!({"seed": seed, "case": idx}));
            return;
        }
    };
    let mut model = Model::default();
    let mut history: Vec<Value> = Vec::new();
    let universe: Vec<u64> = (0..n_ids).collect();
    let len = rng.range(6, 16);
    let mut deletes = 0;
    for step in 0..len {
        let id = rng.below(n_ids);
        match rng.below(100) {
            0..=39 => {
                let meta = gen_meta_rich(&mut rng, &pool);
                let v = gen_vec(&mut rng, 2, cfg.metric);
                history.push(json!({"op":"insert","id":id,"meta":meta}));
                if engine.insert(id, v.clone(), to_hm(&meta)).is_ok() {
                    model.apply_insert(id, bits(&v), meta);
                }
            }
            40..=54 => {
                // bulk load bypasses the recent-write tier
                let meta = gen_meta_rich(&mut rng, &pool);
                let v = gen_vec(&mut rng, 2, cfg.metric);
                history.push(json!({"op":"bulk_load","id":id,"meta":meta}));
                if let Ok((1, 0, _, _)) = engine.bulk_load_cold_tier(vec![(id, v.clone(), to_hm(&meta))]) {
                    model.apply_insert(id, bits(&v), meta);
                }
            }
            55..=66 => {
                let meta = gen_meta_rich(&mut rng, &pool);
                let merge = rng.chance(0.5);
                history.push(json!({"op":"update","id":id,"merge":merge,"meta":meta}));
                if let Ok(true) = engine.update_metadata(id, to_hm(&meta), merge) {
                    model.apply_update(id, &meta, merge);
                }
            }
            67..=72 => {
                history.push(json!({"op":"flush"}));
                let _ = engine.flush_hot_tier(rng.chance(0.5));
            }
            73..=78 => {
                history.push(json!({"op":"delete","id":id}));
                if engine.delete(id).is_ok() {
                    model.apply_delete(id);
                }
            }
            _ => {
                let fdepth = rng.usize_below(3);
                let f = gen_filter(&mut rng, &pool, fdepth);
                let expect: BTreeSet<u64> = model.docs.iter().filter(|(_, d)| reference(&f, &d.meta)).map(|(k, _)| *k).collect();
                history.push(json!({"op":"batch_delete_by_filter","filter":f.short(),"expected_removed":expect}));
                match engine.batch_delete_by_metadata_filter(&f.to_proto()) {
                    Ok(_) => {
                        for id in &expect {
                            model.apply_delete(*id);
                        }
                        deletes += 1;
                    }
                    Err(e) => {
                        out.violation("filtered-delete-failed", format!("step {}: {:#}", step, e), json!({"check":"C11","leg":"filtered-delete","seed":seed,"case":idx,"history":history}));
                        return;
                    }
                }
                let got = census_backend(engine.cold_tier(), &universe);
                let d = diff_models(&model, &got);
                if !d.is_empty() {
                    out.violation(
                        "filtered-delete-removed-wrong-set",
                        format!("step {}: after batch_delete_by_metadata_filter({}) the collection differs from model (expected to remove {:?}): {:?}", step, f.short(), expect, d),
                        json!({"check":"C11","leg":"filtered-delete","seed":seed,"case":idx,"history":history}),
                    );
                    return;
                }
            }
        }
    }
    out.eval();
    out.count("filtered_deletes", deletes);
    if deletes > 0 {
        out.distinct(&(idx, history.iter().map(|h| h.to_string()).collect::<Vec<_>>()));
    }
    if idx % 997 == 0 {
        out.sample(json!({"leg":"filtered-delete","case":idx,"history":history.iter().take(6).collect::<Vec<_>>()}));
    }
}
