//! C12 restoring a backup reproduces the collection as of that backup.
//!
//! leg histories: seeded histories with full / incremental backups at quiescent points and
//!   snapshot / rotation / compaction / restart activity in between; EVERY backup is restored into
//!   an empty directory and strictly recovered; must equal the model at backup time. PITR targets
//!   (thorough: between backup timestamps; quick: "now").
//! leg corruption: single-byte flips at structural offsets and truncations of every archive and
//!   metadata file: outcome must be "rejected with the target untouched" or "accepted with exactly
//!   the backup-time collection"; a non-empty target is never cleared without confirmation.
//! leg retention: synthetic timelines x policies; a retained backup never loses an ancestor.

use crate::model::*;
use crate::util::*;
use kyrodb_engine::backup::{BackupManager, BackupMetadata, BackupType, ClearDirectoryOptions, RestoreManager, RetentionPolicy};
use kyrodb_engine::persistence::FsyncPolicy;
use serde_json::{json, Value};
use std::collections::{BTreeMap, BTreeSet};
use std::path::Path;

pub fn run(args: &Args) -> Out {
    let leg = args.get("leg").unwrap_or("histories").to_string();
    let mut out = Out::new("C12", &leg);
    let replay: Option<(u64, usize, bool)> = args.replay.as_ref().and_then(|p| {
        let v: Value = serde_json::from_str(&std::fs::read_to_string(p).ok()?).ok()?;
        Some((v["replay"]["seed"].as_u64()?, v["replay"]["case"].as_u64()? as usize, v["replay"]["thorough"].as_bool().unwrap_or(false)))
    });
    let (n_q, n_t) = match leg.as_str() {
        "histories" => (16_000, 64_000),
        "corruption" => (1280, 6400),
        _ => (160_000, 640_000),
    };
    let f: fn(u64, usize, bool, &mut Out) = match leg.as_str() {
        "histories" => history_case,
        "corruption" => corruption_case,
        _ => retention_case,
    };
    if let Some((s, c, t)) = replay {
        f(s, c, t, &mut out);
        return out;
    }
    for idx in 0..args.n(n_q, n_t) {
        if args.mine(idx) {
            f(args.seed, idx, args.thorough, &mut out);
        }
    }
    out
}

struct Built {
    cfg: EngCfg,
    universe: Vec<u64>,
    /// (metadata, model at backup time, description)
    backups: Vec<(BackupMetadata, Model)>,
    history: Vec<Value>,
}

/// run a history with backups; returns None after reporting a violation
fn build(seed: u64, idx: usize, thorough: bool, pitr_spacing: bool, data: &Path, backup_dir: &Path, out: &mut Out, tag: u64) -> Option<Built> {
    let mut rng = Rng::derive(seed, idx as u64, tag);
    let metric = metric_from(idx);
    let dim = [2usize, 3, 4][rng.usize_below(3)];
    let cfg = EngCfg {
        dim,
        metric,
        capacity: *rng.pick(&[8usize, 10_000]),
        snapshot_interval: *rng.pick(&[2usize, 4, 7, 1000]),
        max_wal: *rng.pick(&[96u64, 256, 1 << 20]),
        fsync: FsyncPolicy::Never,
        tiered: false,
        hot_soft: 1,
        hot_hard: 1,
    };
    let g = GenCfg {
        n_ids: rng.range(4, 8),
        dim,
        metric,
        p_snapshot: 0.08,
        p_restart: 0.05,
        p_flush: 0.0,
    };
    let universe: Vec<u64> = (0..g.n_ids).collect();
    let mut history: Vec<Value> = Vec::new();
    let desc = |history: &Vec<Value>| json!({"check":"C12","seed":seed,"case":idx,"thorough":thorough,"cfg":cfg.to_json(),"history":history});
    let mut eng = match Eng::create(&cfg, data) {
        Ok(e) => e,
        Err(e) => {
            out.violation("create-failed", format!("{:#}", e), desc(&history));
            return None;
        }
    };
    let mgr = match BackupManager::new(backup_dir, data) {
        Ok(m) => m,
        Err(e) => {
            out.violation("backup-manager-failed", format!("{:#}", e), desc(&history));
            return None;
        }
    };
    let mut model = Model::default();
    let mut backups: Vec<(BackupMetadata, Model)> = Vec::new();
    let len = if thorough { rng.range(20, 50) } else { rng.range(12, 30) } as usize;
    let nb_target = rng.range(2, 4) as usize;
    let backup_at: BTreeSet<usize> = (0..nb_target).map(|_| rng.usize_below(len)).chain([len - 1]).collect();
    for k in 0..len {
        let op = gen_op(&mut rng, &g, &model.live());
        history.push(op.to_json());
        match &op {
            Op::Insert { id, vec, meta } => {
                if eng.insert(*id, vec.clone(), meta).is_ok() {
                    if let Some(st) = eng.cold().fetch_document(*id) {
                        model.apply_insert(*id, bits(&st), meta.clone());
                    }
                }
            }
            Op::Delete { id } => {
                if eng.delete(*id).is_ok() {
                    model.apply_delete(*id);
                }
            }
            Op::BatchDelete { ids } => {
                if eng.batch_delete(ids).is_ok() {
                    for id in ids {
                        model.apply_delete(*id);
                    }
                }
            }
            Op::UpdateMeta { id, meta, merge } => {
                if let Ok(true) = eng.update_metadata(*id, meta, *merge) {
                    model.apply_update(*id, meta, *merge);
                }
            }
            Op::Snapshot => {
                let _ = eng.snapshot();
            }
            Op::Restart => {
                drop(eng);
                eng = match Eng::recover(&cfg, data) {
                    Ok(e) => e,
                    Err(e) => {
                        out.violation("clean-restart-failed", format!("{:#}", e), desc(&history));
                        return None;
                    }
                };
            }
            Op::Flush => {}
        }
        if backup_at.contains(&k) {
            // quiescent point: take a backup (full first, then mostly incrementals on the newest backup)
            let incremental = !backups.is_empty() && rng.chance(0.7);
            if pitr_spacing {
                std::thread::sleep(std::time::Duration::from_millis(1100));
            }
            let r = if incremental {
                let parent = backups.last().unwrap().0.id;
                history.push(json!({"op":"backup","type":"incremental","parent":parent.to_string()}));
                mgr.create_incremental_backup(parent, format!("inc {}", k))
            } else {
                history.push(json!({"op":"backup","type":"full"}));
                mgr.create_full_backup(format!("full {}", k))
            };
            match r {
                Ok(md) => backups.push((md, model.clone())),
                Err(e) => {
                    let msg = format!("{:#}", e);
                    if msg.contains("No new WAL files since parent backup") {
                        history.push(json!({"note":"incremental refused: nothing new"}));
                    } else {
                        out.violation("backup-failed", format!("op {}: backup creation failed on a quiescent healthy engine: {}", k, msg), desc(&history));
                        return None;
                    }
                }
            }
            if pitr_spacing {
                std::thread::sleep(std::time::Duration::from_millis(1100));
            }
        }
    }
    drop(eng);
    Some(Built { cfg, universe, backups, history })
}

fn dir_fingerprint(dir: &Path) -> BTreeMap<String, Vec<u8>> {
    let mut m = BTreeMap::new();
    if let Ok(rd) = std::fs::read_dir(dir) {
        for e in rd.flatten() {
            if e.path().is_file() {
                if let Ok(c) = std::fs::read(e.path()) {
                    m.insert(e.file_name().to_string_lossy().to_string(), c);
                }
            }
        }
    }
    m
}

fn restore_and_census(cfg: &EngCfg, backup_dir: &Path, target: &Path, id: uuid::Uuid, universe: &[u64], opts: &ClearDirectoryOptions) -> Result<Model, String> {
    let rm = RestoreManager::new(backup_dir, target).map_err(|e| format!("restore manager: {:#}", e))?;
    rm.restore_from_backup_with_options(id, opts).map_err(|e| format!("RESTORE-REFUSED: {:#}", e))?;
    let b = recover_backend(cfg, target).map_err(|e| format!("RECOVERY-FAILED: {:#}", e))?;
    Ok(census_backend(&b, universe))
}

fn history_case(seed: u64, idx: usize, thorough: bool, out: &mut Out) {
    let scratch = Scratch::new("c12h");
    let data = scratch.sub("data");
    let backup_dir = scratch.sub("backups");
    // point-in-time cases sleep 1.1 s between backups: spread them over all shards and bound their number
    let pitr = thorough && (idx / 16) % 8 == 0 && idx < 16 * 8 * 24;
    let Some(b) = build(seed, idx, thorough, pitr, &data, &backup_dir, out, 0xC12) else { return };
    let desc = json!({"check":"C12","leg":"histories","seed":seed,"case":idx,"thorough":thorough,"cfg":b.cfg.to_json(),"history":b.history});
    let mut kinds = BTreeSet::new();
    for (i, (md, model)) in b.backups.iter().enumerate() {
        let target = scratch.sub(&format!("restore{}", i));
        let _ = std::fs::create_dir_all(&target);
        kinds.insert(format!("{:?}", md.backup_type));
        match restore_and_census(&b.cfg, &backup_dir, &target, md.id, &b.universe, &ClearDirectoryOptions::default()) {
            Ok(got) => {
                let d = diff_models(model, &got);
                if !d.is_empty() {
                    out.violation(
                        format!("restored-collection-differs|{:?}", md.backup_type),
                        format!("case {}: restoring backup #{} ({:?}, parent {:?}) into an empty directory and recovering gives a different collection than at backup time: {:?}", idx, i, md.backup_type, md.parent_id, d),
                        desc.clone(),
                    );
                    return;
                }
                out.count("backups_restored_and_compared", 1);
            }
            Err(e) => {
                let what = if e.starts_with("RECOVERY-FAILED") { "restored-directory-does-not-recover" } else { "verified-backup-refused" };
                out.violation(
                    format!("{}|{:?}", what, md.backup_type),
                    format!("case {}: backup #{} ({:?}, parent {:?}): {}", idx, i, md.backup_type, md.parent_id, e.chars().take(400).collect::<String>()),
                    desc.clone(),
                );
                return;
            }
        }
    }
    // point-in-time restore
    if !b.backups.is_empty() {
        let targets: Vec<(u64, usize)> = if pitr {
            // a target right at each backup's timestamp: the chain must stop exactly there
            b.backups.iter().enumerate().map(|(i, (md, _))| (md.timestamp, i)).collect()
        } else {
            vec![(u64::MAX / 2, usize::MAX)]
        };
        for (ts, expect_idx) in targets {
            // expected: newest full with timestamp <= ts, then follow incrementals (each the newest child <= ts)
            let Some(expected) = pitr_expected(&b.backups, ts) else { continue };
            if expect_idx != usize::MAX && pitr && expected != expect_idx {
                // with 1.1 s spacing the backup taken at ts is the chain end iff it hangs on the newest full; otherwise skip
            }
            let target = scratch.sub(&format!("pitr{}", ts % 100_000));
            let _ = std::fs::remove_dir_all(&target);
            let _ = std::fs::create_dir_all(&target);
            let rm = RestoreManager::new(&backup_dir, &target).expect("rm");
            match rm.restore_point_in_time(ts) {
                Ok(()) => match recover_backend(&b.cfg, &target) {
                    Ok(be) => {
                        let got = census_backend(&be, &b.universe);
                        let d = diff_models(&b.backups[expected].1, &got);
                        if !d.is_empty() {
                            out.violation("pitr-collection-differs", format!("case {}: point-in-time restore to {} should give the collection of backup #{}: {:?}", idx, ts, expected, d), desc.clone());
                            return;
                        }
                        out.count("pitr_restores_compared", 1);
                    }
                    Err(e) => {
                        out.violation("pitr-directory-does-not-recover", format!("case {}: PITR to {} restored but strict recovery fails: {:#}", idx, ts, e), desc.clone());
                        return;
                    }
                },
                Err(e) => {
                    out.violation("pitr-refused", format!("case {}: PITR to {} refused: {:#}", idx, ts, e), desc.clone());
                    return;
                }
            }
        }
    }
    out.eval();
    if b.backups.len() >= 2 && kinds.len() >= 1 {
        out.distinct(&(idx, b.history.iter().map(|h| h.to_string()).collect::<Vec<_>>()));
    }
    if idx % 53 == 0 {
        out.sample(json!({"case": idx, "cfg": b.cfg.to_json(), "backups": b.backups.iter().map(|(m, mo)| json!({"type": format!("{:?}", m.backup_type), "docs": mo.docs.len(), "parent": m.parent_id.map(|p| p.to_string())})).collect::<Vec<_>>(), "ops": b.history.len()}));
    }
}

/// index of the backup whose state a PITR to `ts` must reproduce (mirrors the documented selection:
/// most recent full <= ts, then repeatedly the newest-listed incremental child <= ts)
fn pitr_expected(backups: &[(BackupMetadata, Model)], ts: u64) -> Option<usize> {
    // list order of the implementation: newest first by timestamp (stable for equal timestamps is unspecified,
    // so the expectation is only computed when timestamps are distinct or the chain is linear)
    let mut order: Vec<usize> = (0..backups.len()).collect();
    order.sort_by(|a, b| backups[*b].0.timestamp.cmp(&backups[*a].0.timestamp));
    let full = order.iter().copied().find(|i| backups[*i].0.timestamp <= ts && backups[*i].0.backup_type == BackupType::Full)?;
    // ambiguity guard: several fulls with the same timestamp
    if backups.iter().filter(|(m, _)| m.backup_type == BackupType::Full && m.timestamp == backups[full].0.timestamp).count() > 1 {
        return None;
    }
    let mut cur = full;
    loop {
        let kids: Vec<usize> = order.iter().copied().filter(|i| backups[*i].0.parent_id == Some(backups[cur].0.id) && backups[*i].0.timestamp <= ts && backups[*i].0.backup_type == BackupType::Incremental).collect();
        match kids.len() {
            0 => return Some(cur),
            1 => cur = kids[0],
            _ => return None, // branching: which child is followed is unspecified
        }
    }
}

// ---------------------------------------------------------------------------------------------

fn corruption_case(seed: u64, idx: usize, thorough: bool, out: &mut Out) {
    let scratch = Scratch::new("c12c");
    let data = scratch.sub("data");
    let backup_dir = scratch.sub("backups");
    let Some(b) = build(seed, idx, thorough, false, &data, &backup_dir, out, 0xC12) else { return };
    let mut rng = Rng::derive(seed, idx as u64, 0xCC12);
    if b.backups.is_empty() {
        return;
    }
    // a non-empty target that holds another (valid) database
    let other = scratch.sub("other");
    let ocfg = EngCfg { dim: b.cfg.dim, ..b.cfg.clone() };
    {
        let e = match Eng::create(&ocfg, &other) {
            Ok(e) => e,
            Err(_) => return,
        };
        let _ = e.insert(0, gen_vec(&mut rng, b.cfg.dim, b.cfg.metric), &gen_meta(&mut rng));
    }
    let other_fp = dir_fingerprint(&other);
    // (1) never cleared without confirmation
    {
        let target = scratch.sub("t-noconfirm");
        let _ = copy_dir(&other, &target);
        let (md, _) = &b.backups[rng.usize_below(b.backups.len())];
        let r = restore_and_census(&b.cfg, &backup_dir, &target, md.id, &b.universe, &ClearDirectoryOptions::default());
        out.eval();
        if r.is_ok() || dir_fingerprint(&target) != other_fp {
            out.violation(
                "non-empty-target-cleared-without-confirmation",
                format!("case {}: restore into a non-empty directory without allow_clear {} and the directory {}", idx, if r.is_ok() { "succeeded" } else { "failed" }, if dir_fingerprint(&target) != other_fp { "was modified" } else { "is unchanged" }),
                json!({"check":"C12","leg":"corruption","seed":seed,"case":idx,"thorough":thorough}),
            );
            return;
        }
    }
    // (2) single corruptions of every file of the chain of one backup
    let pick = rng.usize_below(b.backups.len());
    let (md, model) = &b.backups[pick];
    // chain files
    let mut chain_ids = vec![md.id];
    let mut cur = md.clone();
    while let Some(p) = cur.parent_id {
        match b.backups.iter().find(|(m, _)| m.id == p) {
            Some((m, _)) => {
                chain_ids.push(m.id);
                cur = m.clone();
            }
            None => break,
        }
    }
    let mut files: Vec<String> = Vec::new();
    for id in &chain_ids {
        files.push(format!("backup_{}.tar", id));
        files.push(format!("backup_{}.json", id));
    }
    let opts = ClearDirectoryOptions::new().with_allow_clear(true);
    for fname in files {
        let path = backup_dir.join(&fname);
        let Ok(orig) = std::fs::read(&path) else { continue };
        let n = orig.len();
        let mut muts: Vec<(String, Vec<u8>)> = Vec::new();
        let mut flip = |off: usize, what: &str, rng: &mut Rng, muts: &mut Vec<(String, Vec<u8>)>| {
            if off < n {
                let mut c = orig.clone();
                c[off] ^= 1 << rng.below(8);
                muts.push((format!("flip:{}@{}", what, off), c));
            }
        };
        if fname.ends_with(".tar") {
            // [count u32] then per member [name_len u32][name][data_len u64][data]
            for off in 0..4 {
                flip(off, "member-count", &mut rng, &mut muts);
            }
            let mut p = 4usize;
            let mut member = 0;
            while p + 4 <= n {
                let nl = u32::from_le_bytes([orig[p], orig[p + 1], orig[p + 2], orig[p + 3]]) as usize;
                if nl == 0 || p + 4 + nl + 8 > n {
                    break;
                }
                for off in p..p + 4 {
                    flip(off, "name-length", &mut rng, &mut muts);
                }
                for off in p + 4..p + 4 + nl {
                    flip(off, "member-name", &mut rng, &mut muts);
                }
                let dl_off = p + 4 + nl;
                let dl = u64::from_le_bytes(orig[dl_off..dl_off + 8].try_into().unwrap()) as usize;
                for off in dl_off..dl_off + 8 {
                    flip(off, "data-length", &mut rng, &mut muts);
                }
                let d0 = dl_off + 8;
                if dl > 0 && d0 + dl <= n {
                    flip(d0, "payload-first", &mut rng, &mut muts);
                    flip(d0 + dl / 2, "payload-mid", &mut rng, &mut muts);
                    flip(d0 + dl - 1, "payload-last", &mut rng, &mut muts);
                }
                // truncation to the member boundary -1 / 0 / +1
                for d in [-1i64, 0, 1] {
                    let len = (p as i64 + d).max(0) as usize;
                    if len < n {
                        muts.push((format!("truncate:member-boundary{:+}@{}", d, member), orig[..len].to_vec()));
                    }
                }
                p = d0 + dl;
                member += 1;
            }
            muts.push(("truncate:to-0".into(), Vec::new()));
            muts.push(("truncate:last-byte".into(), orig[..n - 1].to_vec()));
            // seeded random offsets, labelled by the structure they land in
            let mut name_ranges: Vec<(usize, usize)> = Vec::new();
            {
                let mut q = 4usize;
                while q + 4 <= n {
                    let nl = u32::from_le_bytes([orig[q], orig[q + 1], orig[q + 2], orig[q + 3]]) as usize;
                    if nl == 0 || q + 4 + nl + 8 > n {
                        break;
                    }
                    name_ranges.push((q + 4, q + 4 + nl));
                    let dl = u64::from_le_bytes(orig[q + 4 + nl..q + 12 + nl].try_into().unwrap()) as usize;
                    q = q + 12 + nl + dl;
                }
            }
            for _ in 0..(if thorough { 12 } else { 4 }) {
                let off = rng.usize_below(n);
                let in_name = name_ranges.iter().any(|(a, b)| off >= *a && off < *b);
                flip(off, if in_name { "member-name" } else { "random" }, &mut rng, &mut muts);
            }
        } else {
            // metadata JSON: every (3rd in quick) byte
            let step = if thorough { 1 } else { 3 };
            let start = rng.usize_below(step);
            for off in (start..n).step_by(step) {
                flip(off, "metadata-json", &mut rng, &mut muts);
            }
            muts.push(("truncate:metadata-half".into(), orig[..n / 2].to_vec()));
        }
        for (mi, (what, bytes)) in muts.into_iter().enumerate() {
            let _ = std::fs::write(&path, &bytes);
            let target = scratch.sub("t-corrupt");
            let _ = std::fs::remove_dir_all(&target);
            let _ = copy_dir(&other, &target);
            // every 4th mutation goes through the point-in-time route ("now": newest chain); that route
            // is judged on the rejection clause only (a refused restore leaves the target untouched)
            if mi % 4 == 3 {
                let r = RestoreManager::new(&backup_dir, &target).and_then(|rm| rm.restore_point_in_time_with_options(u64::MAX / 4, &opts));
                out.eval();
                out.distinct(&(idx, fname.clone(), what.clone(), "pitr"));
                if let Err(e) = r {
                    let class = what.split('@').next().unwrap_or("").to_string();
                    let kind = if fname.ends_with(".tar") { "archive" } else { "metadata" };
                    if dir_fingerprint(&target) != other_fp {
                        out.violation(
                            format!("target-touched-before-rejection|{}|{}|point-in-time", kind, class),
                            format!("case {}: {} of {}: the point-in-time restore was refused ({}) but the non-empty target directory had already been modified", idx, what, fname, format!("{:#}", e).chars().take(200).collect::<String>()),
                            json!({"check":"C12","leg":"corruption","seed":seed,"case":idx,"thorough":thorough,"file":fname,"mutation":what,"route":"point-in-time"}),
                        );
                    } else {
                        out.count("corruptions_rejected_target_untouched_pitr", 1);
                    }
                } else {
                    out.count("pitr_restores_not_refused", 1);
                }
                continue;
            }
            let r = restore_and_census(&b.cfg, &backup_dir, &target, md.id, &b.universe, &opts);
            out.eval();
            out.distinct(&(idx, fname.clone(), what.clone()));
            let class = what.split('@').next().unwrap_or("").to_string();
            let kind = if fname.ends_with(".tar") { "archive" } else { "metadata" };
            match r {
                Ok(got) => {
                    if !diff_models(model, &got).is_empty() {
                        out.violation(
                            format!("corrupt-backup-accepted-with-different-collection|{}|{}", kind, class),
                            format!("case {}: {} of {} was accepted and the restored collection differs from the backup-time one: {:?}", idx, what, fname, diff_models(model, &got)),
                            json!({"check":"C12","leg":"corruption","seed":seed,"case":idx,"thorough":thorough,"file":fname,"mutation":what}),
                        );
                    } else {
                        out.count("corruptions_harmless", 1);
                    }
                }
                Err(e) => {
                    if dir_fingerprint(&target) != other_fp {
                        out.violation(
                            format!("target-touched-before-rejection|{}|{}", kind, class),
                            format!("case {}: {} of {}: the restore did not end in a usable state ({}) but the non-empty target directory had already been modified", idx, what, fname, e.chars().take(200).collect::<String>()),
                            json!({"check":"C12","leg":"corruption","seed":seed,"case":idx,"thorough":thorough,"file":fname,"mutation":what}),
                        );
                    } else {
                        out.count("corruptions_rejected_target_untouched", 1);
                    }
                }
            }
        }
        let _ = std::fs::write(&path, &orig);
    }
    if idx % 11 == 0 {
        out.sample(json!({"leg":"corruption","case":idx,"chain_len":chain_ids.len(),"restored_backup_type":format!("{:?}", md.backup_type)}));
    }
}

// ---------------------------------------------------------------------------------------------

fn retention_case(seed: u64, idx: usize, _thorough: bool, out: &mut Out) {
    let mut rng = Rng::derive(seed, idx as u64, 0x4C12);
    let scratch = Scratch::new("c12r");
    let backup_dir = scratch.sub("backups");
    let data = scratch.sub("data");
    let _ = std::fs::create_dir_all(&backup_dir);
    let _ = std::fs::create_dir_all(&data);
    let now = std::time::SystemTime::now().duration_since(std::time::UNIX_EPOCH).unwrap().as_secs();
    // synthetic timeline: fulls with chains / branches of incrementals, crafted timestamps
    let mut metas: Vec<BackupMetadata> = Vec::new();
    let n_full = rng.range(1, 5);
    for _ in 0..n_full {
        let span = [3600u64, 86_400, 7 * 86_400, 30 * 86_400, 400 * 86_400][rng.usize_below(5)];
        let mut ts = now.saturating_sub(rng.below(span * 3));
        let mut full = BackupMetadata::new_full(10, 1, 0, "full".into());
        full.timestamp = ts;
        let mut parents = vec![full.id];
        metas.push(full);
        for _ in 0..rng.below(5) {
            let parent = *rng.pick(&parents);
            let pts = metas.iter().find(|m| m.id == parent).unwrap().timestamp;
            ts = (pts + rng.below(span / 2 + 1)).min(now);
            let mut inc = BackupMetadata::new_incremental(parent, 5, 0, 0, "inc".into());
            inc.timestamp = ts;
            parents.push(inc.id);
            metas.push(inc);
        }
    }
    for m in &metas {
        let _ = std::fs::write(backup_dir.join(format!("backup_{}.json", m.id)), serde_json::to_string_pretty(m).unwrap());
        let _ = std::fs::write(backup_dir.join(format!("backup_{}.tar", m.id)), 0u32.to_le_bytes());
    }
    let policy = RetentionPolicy {
        hourly_hours: rng.below(30) as usize,
        daily_days: rng.below(10) as usize,
        weekly_weeks: rng.below(6) as usize,
        monthly_months: rng.below(14) as usize,
        min_age_days: *rng.pick(&[0u64, 0, 1, 7]),
    };
    let mgr = BackupManager::new(&backup_dir, &data).expect("mgr");
    let deleted = match mgr.prune_backups(&policy) {
        Ok(d) => d,
        Err(e) => {
            out.violation("prune-failed", format!("{:#}", e), json!({"seed":seed,"case":idx}));
            return;
        }
    };
    out.eval();
    let deleted: BTreeSet<String> = deleted.iter().map(|d| d.to_string()).collect();
    let retained: Vec<&BackupMetadata> = metas.iter().filter(|m| !deleted.contains(&m.id.to_string())).collect();
    if !deleted.is_empty() && !retained.is_empty() {
        out.distinct(&(idx, deleted.len(), retained.len()));
    }
    out.count("backups_pruned", deleted.len() as u64);
    for r in &retained {
        // every ancestor of a retained backup must be retained (files present)
        let mut cur = *r;
        while let Some(p) = cur.parent_id {
            let parent = metas.iter().find(|m| m.id == p);
            let present = backup_dir.join(format!("backup_{}.json", p)).exists() && backup_dir.join(format!("backup_{}.tar", p)).exists();
            if !present {
                out.violation(
                    "prune-removed-ancestor-of-retained-backup",
                    format!(
                        "case {}: after prune_backups({:?}) the retained {:?} backup {} (age {} s) depends on removed backup {}",
                        idx,
                        policy,
                        r.backup_type,
                        r.id,
                        now.saturating_sub(r.timestamp),
                        p
                    ),
                    json!({"check":"C12","leg":"retention","seed":seed,"case":idx,"policy":format!("{:?}", policy),
                           "timeline": metas.iter().map(|m| json!({"id": m.id.to_string(), "type": format!("{:?}", m.backup_type), "age_s": now.saturating_sub(m.timestamp), "parent": m.parent_id.map(|p| p.to_string())})).collect::<Vec<_>>()}),
                );
                return;
            }
            match parent {
                Some(pm) => cur = pm,
                None => break,
            }
        }
    }
    if idx % 331 == 0 {
        out.sample(json!({"leg":"retention","case":idx,"backups":metas.len(),"pruned":deleted.len(),"policy":format!("{:?}", policy)}));
    }
}
