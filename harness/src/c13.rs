//! C13 strict recovery never silently returns damaged state.
//!
//! Directories produced by seeded histories (several snapshots, rotated and compacted segments,
//! restarts, clean shutdown); then every single fault = file x (bit flip at each structural offset
//! and seeded offsets | truncation to every frame boundary +-1, 0 and seeded lengths | deletion);
//! strict recovery (in a subprocess when an allocation abort is possible) must refuse or return
//! exactly the pre-damage collection. The property's exclusion (loss confined to a truncated tail
//! of the newest log segment) is applied by effect.

use crate::model::*;
use crate::util::*;
use kyrodb_engine::persistence::{FsyncPolicy, Manifest, Snapshot, WalOp, WalReader};
use serde_json::{json, Value};
use std::collections::BTreeMap;
use std::path::{Path, PathBuf};

#[derive(Clone, Debug)]
enum Fault {
    Flip { file: String, off: usize, bit: u8, what: String },
    Truncate { file: String, len: usize, what: String },
    Delete { file: String },
}

impl Fault {
    fn file(&self) -> &str {
        match self {
            Fault::Flip { file, .. } | Fault::Truncate { file, .. } | Fault::Delete { file } => file,
        }
    }
    fn to_json(&self) -> Value {
        match self {
            Fault::Flip { file, off, bit, what } => json!({"fault":"flip","file":file,"offset":off,"bit":bit,"what":what}),
            Fault::Truncate { file, len, what } => json!({"fault":"truncate","file":file,"len":len,"what":what}),
            Fault::Delete { file } => json!({"fault":"delete","file":file}),
        }
    }
    fn class(&self) -> String {
        match self {
            Fault::Flip { what, .. } => format!("flip@{}", what),
            Fault::Truncate { what, .. } => format!("truncate@{}", what),
            Fault::Delete { .. } => "delete".into(),
        }
    }
    fn apply(&self, dir: &Path) -> std::io::Result<()> {
        match self {
            Fault::Flip { file, off, bit, .. } => {
                let p = dir.join(file);
                let mut b = std::fs::read(&p)?;
                if *off < b.len() {
                    b[*off] ^= 1 << bit;
                }
                std::fs::write(p, b)
            }
            Fault::Truncate { file, len, .. } => {
                let p = dir.join(file);
                let mut b = std::fs::read(&p)?;
                b.truncate(*len);
                std::fs::write(p, b)
            }
            Fault::Delete { file } => std::fs::remove_file(dir.join(file)),
        }
    }
    /// may strict recovery abort the process (huge allocation from a corrupted size field)?
    fn risky(&self) -> bool {
        matches!(self, Fault::Flip { what, .. } if what.contains("size"))
    }
}

/// fault class used in the older-segment-tail signature: truncate | flip@frame-length | flip@payload | flip@crc | ...
fn tail_class(f: &Fault) -> String {
    match f {
        Fault::Truncate { .. } => "truncate".into(),
        Fault::Delete { .. } => "delete".into(),
        Fault::Flip { what, .. } => {
            let field = what.split(':').nth(1).unwrap_or("");
            let field = field.trim_end_matches("-last").trim_end_matches("-inner");
            let field = if field.starts_with("payload") { "payload" } else { field };
            format!("flip@{}", field)
        }
    }
}

fn file_role(name: &str, manifest: &Manifest) -> String {
    if name == "MANIFEST" {
        return "manifest".into();
    }
    if name.starts_with("wal_") {
        let pos = manifest.wal_segments.iter().position(|s| s == name);
        return match pos {
            Some(p) if p + 1 == manifest.wal_segments.len() => "wal-newest".into(),
            Some(_) => "wal-older".into(),
            None => "wal-unlisted".into(),
        };
    }
    if name.starts_with("snapshot_") {
        return if manifest.latest_snapshot.as_deref() == Some(name) { "snapshot-latest".into() } else { "snapshot-old".into() };
    }
    "other".into()
}

/// frame boundaries of a WAL file: offsets where a frame starts (incl. end of last frame)
fn wal_frames(bytes: &[u8]) -> Vec<(usize, usize)> {
    let mut out = Vec::new();
    let mut p = 4usize;
    while p + 4 <= bytes.len() {
        let sz = u32::from_le_bytes([bytes[p], bytes[p + 1], bytes[p + 2], bytes[p + 3]]) as usize;
        if sz == 0 || p + 4 + sz + 4 > bytes.len() {
            break;
        }
        out.push((p, sz));
        p += 4 + sz + 4;
    }
    out
}

fn enumerate_faults(dir: &Path, manifest: &Manifest, rng: &mut Rng, thorough: bool) -> Vec<Fault> {
    let mut faults = Vec::new();
    let mut names: Vec<String> = std::fs::read_dir(dir).map(|rd| rd.flatten().map(|e| e.file_name().to_string_lossy().to_string()).collect()).unwrap_or_default();
    names.sort();
    for name in names {
        let role = file_role(&name, manifest);
        if role == "other" || role == "wal-unlisted" || name.ends_with(".tmp") {
            continue;
        }
        let Ok(bytes) = std::fs::read(dir.join(&name)) else { continue };
        let n = bytes.len();
        faults.push(Fault::Delete { file: name.clone() });
        let mut flip = |off: usize, what: &str, rng: &mut Rng, faults: &mut Vec<Fault>| {
            if off < n {
                faults.push(Fault::Flip { file: name.clone(), off, bit: rng.below(8) as u8, what: format!("{}:{}", role, what) });
            }
        };
        if role == "manifest" {
            let step = if thorough { 1 } else { 3 };
            let start = rng.usize_below(step);
            for off in (start..n).step_by(step) {
                flip(off, "byte", rng, &mut faults);
            }
            for len in [0usize, 1, n / 2, n.saturating_sub(1)] {
                faults.push(Fault::Truncate { file: name.clone(), len, what: format!("{}:len", role) });
            }
        } else if role.starts_with("wal") {
            for off in 0..4.min(n) {
                flip(off, "magic", rng, &mut faults);
            }
            let frames = wal_frames(&bytes);
            for (i, (p, sz)) in frames.iter().enumerate() {
                let tag = if i + 1 == frames.len() { "last" } else { "inner" };
                for b in 0..4 {
                    flip(p + b, &format!("frame-length-{}", tag), rng, &mut faults);
                }
                flip(p + 4, &format!("payload-first-{}", tag), rng, &mut faults);
                flip(p + 4 + sz / 2, &format!("payload-mid-{}", tag), rng, &mut faults);
                flip(p + 4 + sz - 1, &format!("payload-last-{}", tag), rng, &mut faults);
                for b in 0..4 {
                    flip(p + 4 + sz + b, &format!("crc-{}", tag), rng, &mut faults);
                }
                // truncation to the frame boundary -1 / 0 / +1
                for d in [-1i64, 0, 1] {
                    let len = (*p as i64 + d).max(0) as usize;
                    if len < n {
                        faults.push(Fault::Truncate { file: name.clone(), len, what: format!("{}:frame-boundary{:+}", role, d) });
                    }
                }
            }
            faults.push(Fault::Truncate { file: name.clone(), len: 0, what: format!("{}:to-0", role) });
            if n > 4 {
                faults.push(Fault::Truncate { file: name.clone(), len: 4, what: format!("{}:to-header", role) });
            }
            for _ in 0..(if thorough { 6 } else { 2 }) {
                if n > 5 {
                    let len = rng.range(1, n as u64 - 1) as usize;
                    faults.push(Fault::Truncate { file: name.clone(), len, what: format!("{}:random-len", role) });
                    let off = rng.usize_below(n);
                    // a seeded offset is labelled by the structural field it lands in
                    let mut label = if off < 4 { "magic".to_string() } else { "unframed".to_string() };
                    for (i, (p, sz)) in frames.iter().enumerate() {
                        let tag = if i + 1 == frames.len() { "last" } else { "inner" };
                        if off >= *p && off < p + 4 {
                            label = format!("frame-length-{}", tag);
                        } else if off >= p + 4 && off < p + 4 + sz {
                            label = format!("payload-any-{}", tag);
                        } else if off >= p + 4 + sz && off < p + 8 + sz {
                            label = format!("crc-{}", tag);
                        }
                    }
                    flip(off, &label, rng, &mut faults);
                }
            }
        } else {
            // snapshot: magic(4) size(8) payload(size) crc(4); payload = bincode(version u32, timestamp u64, doc_count u64, dimension u64, ...)
            for off in 0..4 {
                flip(off, "magic", rng, &mut faults);
            }
            for off in 4..12 {
                flip(off, "size", rng, &mut faults);
            }
            for off in 12..16 {
                flip(off, "version", rng, &mut faults);
            }
            for off in 16..24 {
                flip(off, "timestamp", rng, &mut faults);
            }
            for off in 24..32 {
                flip(off, "doc_count", rng, &mut faults);
            }
            for off in 32..40 {
                flip(off, "dimension", rng, &mut faults);
            }
            for off in n.saturating_sub(4)..n {
                flip(off, "crc", rng, &mut faults);
            }
            // trailing fields of the payload: distance metric, last_wal_seq
            for off in n.saturating_sub(16)..n.saturating_sub(4) {
                flip(off, "payload-tail", rng, &mut faults);
            }
            for _ in 0..(if thorough { 24 } else { 8 }) {
                if n > 44 {
                    let off = rng.range(40, n as u64 - 5) as usize;
                    flip(off, "payload", rng, &mut faults);
                }
            }
            for len in [0usize, 4, 12, n / 2, n.saturating_sub(4), n.saturating_sub(1)] {
                if len < n {
                    faults.push(Fault::Truncate { file: name.clone(), len, what: format!("{}:len", role) });
                }
            }
        }
    }
    faults
}

/// Reference replay of a directory with the crate's own readers (pre-damage), optionally keeping
/// only the first `keep_newest` entries of the newest listed segment.
fn reference_replay(dir: &Path, manifest: &Manifest, keep_newest: Option<usize>) -> Option<Model> {
    let n = manifest.wal_segments.len();
    reference_replay_limited(dir, manifest, keep_newest.map(|k| (n.saturating_sub(1), k)))
}

/// `limit` = (segment index, number of entries of that segment to keep)
fn reference_replay_limited(dir: &Path, manifest: &Manifest, limit: Option<(usize, usize)>) -> Option<Model> {
    let mut docs: BTreeMap<u64, Doc> = BTreeMap::new();
    let mut snap_seq = 0u64;
    if let Some(name) = &manifest.latest_snapshot {
        let s = Snapshot::load(dir.join(name)).ok()?;
        snap_seq = s.last_wal_seq;
        let metas: BTreeMap<u64, Meta> = s.metadata.iter().map(|(k, m)| (*k, from_hm(m))).collect();
        for (id, v) in s.documents {
            docs.insert(id, Doc { bits: bits(&v), meta: metas.get(&id).cloned().unwrap_or_default() });
        }
    }
    for (si, seg) in manifest.wal_segments.iter().enumerate() {
        let mut r = WalReader::open(dir.join(seg)).ok()?;
        let entries = r.read_all().ok()?;
        for (ei, e) in entries.into_iter().enumerate() {
            if let Some((ls, k)) = limit {
                if si == ls && ei >= k {
                    break;
                }
            }
            if snap_seq > 0 && e.seq_no > 0 && e.seq_no <= snap_seq {
                continue;
            }
            match e.op {
                WalOp::Insert => {
                    docs.insert(e.doc_id, Doc { bits: bits(&e.embedding), meta: from_hm(&e.metadata) });
                }
                WalOp::Delete => {
                    docs.remove(&e.doc_id);
                }
                WalOp::UpdateMetadata => {
                    if let Some(d) = docs.get_mut(&e.doc_id) {
                        d.meta = from_hm(&e.metadata);
                    }
                }
            }
        }
    }
    Some(Model { docs })
}

fn newest_segment_entries(dir: &Path, manifest: &Manifest) -> usize {
    manifest
        .wal_segments
        .last()
        .and_then(|s| WalReader::open(dir.join(s)).ok())
        .and_then(|mut r| r.read_all().ok())
        .map(|e| e.len())
        .unwrap_or(0)
}

/// child mode: `vh c13-one --dir D --cfg <json>` prints the census or ERR
pub fn run_one(args: &Args) {
    let dir = PathBuf::from(args.get("dir").unwrap_or(""));
    let cfg = cfg_from_json(&serde_json::from_str(args.get("cfg").unwrap_or("{}")).unwrap_or(Value::Null));
    let universe: Vec<u64> = (0..16).collect();
    match recover_backend(&cfg, &dir) {
        Ok(b) => println!("OK {}", census_backend(&b, &universe).to_json()),
        Err(e) => println!("ERR {}", format!("{:#}", e).replace('\n', " ")),
    }
}

fn cfg_from_json(v: &Value) -> EngCfg {
    EngCfg {
        dim: v["dim"].as_u64().unwrap_or(2) as usize,
        metric: match v["metric"].as_str().unwrap_or("cosine") {
            "euclidean" => kyrodb_engine::config::DistanceMetric::Euclidean,
            "inner_product" => kyrodb_engine::config::DistanceMetric::InnerProduct,
            _ => kyrodb_engine::config::DistanceMetric::Cosine,
        },
        capacity: v["capacity"].as_u64().unwrap_or(1000) as usize,
        snapshot_interval: v["snapshot_interval"].as_u64().unwrap_or(0) as usize,
        max_wal: v["max_wal"].as_u64().unwrap_or(1 << 20),
        fsync: FsyncPolicy::Never,
        tiered: false,
        hot_soft: 1,
        hot_hard: 1,
    }
}

fn model_from_json(v: &Value) -> Model {
    let mut m = Model::default();
    if let Some(o) = v.as_object() {
        for (k, d) in o {
            let id: u64 = k.parse().unwrap_or(0);
            let bits: Vec<u32> = d["bits"].as_array().map(|a| a.iter().map(|x| x.as_u64().unwrap_or(0) as u32).collect()).unwrap_or_default();
            let meta: Meta = d["meta"].as_object().map(|o| o.iter().map(|(k, v)| (k.clone(), v.as_str().unwrap_or("").to_string())).collect()).unwrap_or_default();
            m.docs.insert(id, Doc { bits, meta });
        }
    }
    m
}

pub fn run(args: &Args) -> Out {
    let mut out = Out::new("C13", "single-faults");
    let replay: Option<(u64, usize, bool)> = args.replay.as_ref().and_then(|p| {
        let v: Value = serde_json::from_str(&std::fs::read_to_string(p).ok()?).ok()?;
        Some((v["replay"]["seed"].as_u64()?, v["replay"]["case"].as_u64()? as usize, v["replay"]["thorough"].as_bool().unwrap_or(false)))
    });
    if let Some((s, c, t)) = replay {
        run_case(s, c, t, &mut out);
        return out;
    }
    for idx in 0..args.n(192, 1280) {
        if args.mine(idx) {
            run_case(args.seed, idx, args.thorough, &mut out);
        }
    }
    out
}

fn run_case(seed: u64, idx: usize, thorough: bool, out: &mut Out) {
    let mut rng = Rng::derive(seed, idx as u64, 0xC13);
    let metric = metric_from(idx);
    let dim = [2usize, 3, 4][rng.usize_below(3)];
    let cfg = EngCfg {
        dim,
        metric,
        capacity: *rng.pick(&[8usize, 10_000]),
        snapshot_interval: *rng.pick(&[3usize, 5, 9, 1000]),
        max_wal: *rng.pick(&[96u64, 200, 600, 1 << 20]),
        fsync: FsyncPolicy::Never,
        tiered: false,
        hot_soft: 1,
        hot_hard: 1,
    };
    let g = GenCfg {
        n_ids: rng.range(4, 9),
        dim,
        metric,
        p_snapshot: 0.07,
        p_restart: 0.06,
        p_flush: 0.0,
    };
    let scratch = Scratch::new("c13");
    let dir = scratch.sub("data");
    let desc = json!({"check":"C13","seed":seed,"case":idx,"thorough":thorough,"cfg":cfg.to_json()});
    let mut eng = match Eng::create(&cfg, &dir) {
        Ok(e) => e,
        Err(e) => {
            out.violation("create-failed", format!("{:#}", e), desc);
            return;
        }
    };
    let mut model = Model::default();
    let len = rng.range(15, 45) as usize;
    for _ in 0..len {
        let op = gen_op(&mut rng, &g, &model.live());
        match &op {
            Op::Insert { id, vec, meta } => {
                if eng.insert(*id, vec.clone(), meta).is_ok() {
                    if let Some(st) = eng.cold().fetch_document(*id) {
                        model.apply_insert(*id, bits(&st), meta.clone());
                    }
                }
            }
            Op::Delete { id } => {
                if eng.delete(*id).is_ok() {
                    model.apply_delete(*id);
                }
            }
            Op::BatchDelete { ids } => {
                if eng.batch_delete(ids).is_ok() {
                    for id in ids {
                        model.apply_delete(*id);
                    }
                }
            }
            Op::UpdateMeta { id, meta, merge } => {
                if let Ok(true) = eng.update_metadata(*id, meta, *merge) {
                    model.apply_update(*id, meta, *merge);
                }
            }
            Op::Snapshot => {
                let _ = eng.snapshot();
            }
            Op::Restart => {
                drop(eng);
                eng = match Eng::recover(&cfg, &dir) {
                    Ok(e) => e,
                    Err(e) => {
                        out.violation("clean-restart-failed", format!("{:#}", e), desc);
                        return;
                    }
                };
            }
            Op::Flush => {}
        }
    }
    drop(eng); // clean shutdown
    let Ok(manifest) = Manifest::load(dir.join("MANIFEST")) else {
        out.inconclusive("MANIFEST unreadable after clean shutdown");
        return;
    };
    let universe: Vec<u64> = (0..g.n_ids).collect();
    // the reference replay of the undamaged directory must be the model (else the exclusion logic is unsound)
    match reference_replay(&dir, &manifest, None) {
        Some(m) if diff_models(&model, &m).is_empty() => {}
        other => {
            out.inconclusive(format!("reference replay of the undamaged directory differs from the model: {:?}", other.map(|m| diff_models(&model, &m))));
            return;
        }
    }
    let newest_n = newest_segment_entries(&dir, &manifest);
    let newest_name = manifest.wal_segments.last().cloned().unwrap_or_default();
    let excluded_states: Vec<Model> = (0..newest_n).filter_map(|k| reference_replay(&dir, &manifest, Some(k))).collect();
    // states in which an OLDER listed segment lost a suffix of its entries (known-finding class)
    let mut older_tail_states: Vec<(String, Model)> = Vec::new();
    for (si, seg) in manifest.wal_segments.iter().enumerate() {
        if si + 1 == manifest.wal_segments.len() {
            continue;
        }
        let n = WalReader::open(dir.join(seg)).ok().and_then(|mut r| r.read_all().ok()).map(|e| e.len()).unwrap_or(0);
        for k in 0..n {
            if let Some(m) = reference_replay_limited(&dir, &manifest, Some((si, k))) {
                older_tail_states.push((seg.clone(), m));
            }
        }
    }

    let faults = enumerate_faults(&dir, &manifest, &mut rng, thorough);
    let work = scratch.sub("work");
    let exe = std::env::current_exe().expect("exe");
    let mut refused = 0u64;
    let mut intact = 0u64;
    let mut excluded = 0u64;
    let mut aborted = 0u64;
    for f in &faults {
        let _ = std::fs::remove_dir_all(&work);
        if copy_dir(&dir, &work).is_err() || f.apply(&work).is_err() {
            continue;
        }
        out.eval();
        out.distinct(&(idx, f.to_json().to_string()));
        let outcome: Result<Model, String> = if f.risky() {
            let o = std::process::Command::new(&exe)
                .arg("c13-one")
                .arg("--dir")
                .arg(&work)
                .arg("--cfg")
                .arg(cfg.to_json().to_string())
                .env_remove("LD_PRELOAD")
                .output();
            match o {
                Ok(o) => {
                    let s = String::from_utf8_lossy(&o.stdout).to_string();
                    if let Some(j) = s.strip_prefix("OK ") {
                        Ok(model_from_json(&serde_json::from_str(j.trim()).unwrap_or(Value::Null)))
                    } else if s.starts_with("ERR") {
                        Err(s)
                    } else {
                        aborted += 1;
                        Err(format!("process died ({:?}): an abort is a refusal", o.status.code()))
                    }
                }
                Err(e) => Err(format!("spawn failed: {}", e)),
            }
        } else {
            match std::panic::catch_unwind(|| recover_backend(&cfg, &work).map(|b| census_backend(&b, &universe))) {
                Ok(Ok(m)) => Ok(m),
                Ok(Err(e)) => Err(format!("{:#}", e)),
                Err(_) => Err("panic during recovery (refusal)".into()),
            }
        };
        match outcome {
            Err(_) => refused += 1,
            Ok(got) => {
                if diff_models(&model, &got).is_empty() {
                    intact += 1;
                    continue;
                }
                // the excluded crash case: only a suffix of the newest segment is lost
                if f.file() == newest_name && excluded_states.iter().any(|m| diff_models(m, &got).is_empty()) {
                    excluded += 1;
                    continue;
                }
                let older_tail = older_tail_states.iter().any(|(seg, m)| seg == f.file() && diff_models(m, &got).is_empty());
                out.violation(
                    if older_tail { format!("older-segment-tail-silently-dropped|{}", tail_class(f)) } else { format!("damaged-state-accepted|{}", f.class()) },
                    format!(
                        "case {}: after {} strict recovery SUCCEEDS with a different collection: {:?}",
                        idx,
                        f.to_json(),
                        diff_models(&model, &got)
                    ),
                    json!({"check":"C13","seed":seed,"case":idx,"thorough":thorough,"cfg":cfg.to_json(),"fault":f.to_json(),"manifest":{"segments":manifest.wal_segments,"snapshot":manifest.latest_snapshot}}),
                );
            }
        }
    }
    out.count("faults_refused", refused);
    out.count("faults_harmless_exact_state", intact);
    out.count("faults_excluded_newest_tail", excluded);
    out.count("recoveries_aborted_in_subprocess", aborted);
    out.set_max("max_segments", manifest.wal_segments.len() as u64);
    if idx % 7 == 0 {
        out.sample(json!({"case": idx, "cfg": cfg.to_json(), "files": {"segments": manifest.wal_segments.len(), "snapshot": manifest.latest_snapshot.is_some()}, "faults": faults.len(),
                          "example_faults": faults.iter().take(3).map(|f| f.to_json()).collect::<Vec<_>>() }));
    }
}

// ------------------------------------------------------------------------------------------
// server leg: the same single faults through the real server binary's start-up
// ------------------------------------------------------------------------------------------

type SM = BTreeMap<u64, (Vec<u32>, BTreeMap<String, String>)>;

fn public_view(m: &Model) -> SM {
    m.docs
        .iter()
        .map(|(id, d)| (id & 0xffff_ffff, (d.bits.clone(), d.meta.iter().filter(|(k, _)| !k.starts_with("__")).map(|(k, v)| (k.clone(), v.clone())).collect())))
        .collect()
}

fn srv_census(cl: &mut crate::srv::Cl, ids: &[u64]) -> Result<SM, String> {
    let mut m = SM::new();
    for id in ids {
        let q = cl.query(*id, true, "").map_err(|e| e.to_string())?;
        if q.found {
            m.insert(*id, (bits(&q.embedding), q.metadata.iter().filter(|(k, _)| !k.starts_with("__")).map(|(k, v)| (k.clone(), v.clone())).collect()));
        }
    }
    Ok(m)
}

pub fn run_server(args: &Args) -> Out {
    use crate::srv::*;
    let mut out = Out::new("C13", "server-start-up");
    let Some(bin) = args.get("server").map(|s| s.to_string()) else {
        out.note("no server binary");
        return out;
    };
    let rt = new_rt();
    let only: Option<usize> = args.replay.as_ref().and_then(|p| {
        let v: Value = serde_json::from_str(&std::fs::read_to_string(p).ok()?).ok()?;
        v["replay"]["case"].as_u64().map(|x| x as usize)
    });
    for idx in 0..args.n(32, 192) {
        if let Some(o) = only {
            if o != idx {
                continue;
            }
        } else if !args.mine(idx) {
            continue;
        }
        server_case(args.seed, idx, args.thorough, &bin, &rt, &mut out);
    }
    out
}

fn server_case(seed: u64, idx: usize, thorough: bool, bin: &str, rt: &std::sync::Arc<tokio::runtime::Runtime>, out: &mut Out) {
    use crate::srv::*;
    use std::collections::HashMap;
    let mut rng = Rng::derive(seed, idx as u64, 0xC13_5);
    let dim = 4usize;
    let cfg = SrvCfg {
        dim,
        tenants: vec![TenantSpec { id: "solo".into(), max_vectors: 100_000, max_qps: 0, enabled: true, admin: false }],
        fsync: "data_only",
        snapshot_interval: *rng.pick(&[3u64, 5, 9, 1000]),
        max_wal: *rng.pick(&[300u64, 700, 1 << 20]),
        ..Default::default()
    };
    let desc = json!({"check":"C13","leg":"server-start-up","seed":seed,"case":idx,"snapshot_interval":cfg.snapshot_interval,"max_wal":cfg.max_wal});
    let mut srv = Srv::new(cfg.clone(), bin, rt.clone());
    if let Err(e) = srv.start() {
        out.inconclusive(format!("server start failed: {}", e));
        return;
    }
    let ids: Vec<u64> = (1..=6).collect();
    let mut model = SM::new();
    let n = rng.range(12, 40) as usize;
    let mut cl = match srv.tenant_client("solo") {
        Ok(c) => c,
        Err(e) => {
            out.inconclusive(e);
            return;
        }
    };
    for k in 0..n {
        let id = *rng.pick(&ids);
        match rng.below(12) {
            0..=5 => {
                let v = crate::model::gen_unit_vec(&mut rng, dim);
                let mut md = HashMap::new();
                md.insert("w".to_string(), k.to_string());
                if matches!(cl.insert(id, v.clone(), md, ""), Ok(x) if x.success) {
                    model.insert(id, (bits(&v), [("w".to_string(), k.to_string())].into_iter().collect()));
                }
            }
            6..=7 => {
                if matches!(cl.delete(id, ""), Ok(x) if x.success) {
                    model.remove(&id);
                }
            }
            8 => {
                let mut md = HashMap::new();
                md.insert("u".to_string(), k.to_string());
                if matches!(cl.update_metadata(id, md, true, ""), Ok(x) if x.success && x.existed) {
                    if let Some(d) = model.get_mut(&id) {
                        d.1.insert("u".to_string(), k.to_string());
                    }
                }
            }
            9 => {
                let _ = cl.snapshot("");
            }
            10 => {
                let _ = cl.flush(true);
            }
            _ => {
                // graceful restart
                let _ = srv.term();
                if let Err(e) = srv.start() {
                    if e.contains("exited during start-up") {
                        out.violation("server-clean-restart-failed", format!("graceful restart failed: {}", e), desc.clone());
                    } else {
                        out.inconclusive(format!("case {}: restart watchdog: {}", idx, e));
                    }
                    return;
                }
                cl = match srv.tenant_client("solo") {
                    Ok(c) => c,
                    Err(e) => {
                        out.inconclusive(e);
                        return;
                    }
                };
            }
        }
    }
    // the model is what the live server reports (vectors as stored)
    match srv_census(&mut cl, &ids) {
        Ok(m) if m == model => {}
        Ok(_) => {
            out.inconclusive(format!("case {}: live census differs from the acknowledged model (not this leg's subject)", idx));
            srv.kill9();
            return;
        }
        Err(e) => {
            out.inconclusive(e);
            srv.kill9();
            return;
        }
    }
    let _ = srv.term(); // clean shutdown
    let dir = srv.data_dir();
    let Ok(manifest) = Manifest::load(dir.join("MANIFEST")) else {
        out.inconclusive("MANIFEST unreadable after clean shutdown");
        return;
    };
    // the crate's own readers must reproduce the model from the undamaged directory
    match reference_replay(&dir, &manifest, None) {
        Some(m) if public_view(&m) == model => {}
        _ => {
            out.inconclusive(format!("case {}: reference replay of the undamaged directory differs from the model", idx));
            return;
        }
    }
    let newest_n = newest_segment_entries(&dir, &manifest);
    let newest_name = manifest.wal_segments.last().cloned().unwrap_or_default();
    let excluded_states: Vec<SM> = (0..newest_n).filter_map(|k| reference_replay(&dir, &manifest, Some(k))).map(|m| public_view(&m)).collect();
    let mut older_tail_states: Vec<(String, SM)> = Vec::new();
    for (si, seg) in manifest.wal_segments.iter().enumerate() {
        if si + 1 == manifest.wal_segments.len() {
            continue;
        }
        let nn = WalReader::open(dir.join(seg)).ok().and_then(|mut r| r.read_all().ok()).map(|e| e.len()).unwrap_or(0);
        for k in 0..nn {
            if let Some(m) = reference_replay_limited(&dir, &manifest, Some((si, k))) {
                older_tail_states.push((seg.clone(), public_view(&m)));
            }
        }
    }
    let mut faults = enumerate_faults(&dir, &manifest, &mut rng, thorough);
    // every deletion, then a seeded sample of the rest
    let (mut chosen, mut rest): (Vec<Fault>, Vec<Fault>) = faults.drain(..).partition(|f| matches!(f, Fault::Delete { .. }));
    rng.shuffle(&mut rest);
    chosen.extend(rest.into_iter().take(if thorough { 40 } else { 10 }));
    let (mut refused, mut intact, mut excluded) = (0u64, 0u64, 0u64);
    for f in &chosen {
        let mut s2 = Srv::new(cfg.clone(), bin, rt.clone());
        let work = s2.data_dir();
        let _ = std::fs::remove_dir_all(&work);
        if copy_dir(&dir, &work).is_err() || f.apply(&work).is_err() {
            continue;
        }
        out.eval();
        out.distinct(&(idx, f.to_json().to_string()));
        match s2.start() {
            Ok(()) => {}
            Err(e) if e.contains("exited during start-up") => {
                refused += 1;
                continue;
            }
            Err(e) => {
                out.inconclusive(format!("case {}: damaged-directory server neither started nor refused: {}", idx, e));
                continue;
            }
        }
        let got = match s2.tenant_client("solo").and_then(|mut c| srv_census(&mut c, &ids)) {
            Ok(g) => g,
            Err(e) => {
                out.inconclusive(format!("census after damaged start failed: {}", e));
                s2.kill9();
                continue;
            }
        };
        s2.kill9();
        if got == model {
            intact += 1;
            continue;
        }
        if f.file() == newest_name && excluded_states.iter().any(|m| *m == got) {
            excluded += 1;
            continue;
        }
        let older_tail = older_tail_states.iter().any(|(seg, m)| seg == f.file() && *m == got);
        let role = file_role(f.file(), &manifest);
        out.violation(
            if older_tail { format!("older-segment-tail-silently-dropped|{}", tail_class(f)) } else { format!("server-started-with-damaged-state|{}|{}", role, f.class().split('@').next().unwrap_or("")) },
            format!(
                "case {}: after {} ({}) the server STARTS and serves ids {:?} instead of {:?}",
                idx,
                f.to_json(),
                role,
                got.keys().collect::<Vec<_>>(),
                model.keys().collect::<Vec<_>>()
            ),
            json!({"desc":desc,"fault":f.to_json(),"manifest":{"segments":manifest.wal_segments,"snapshot":manifest.latest_snapshot}}),
        );
    }
    out.count("server_faults_refused", refused);
    out.count("server_faults_harmless_exact_state", intact);
    out.count("server_faults_excluded_newest_tail", excluded);
    if idx % 8 == 0 {
        out.sample(json!({"case":desc,"faults_tried":chosen.len(),"segments":manifest.wal_segments.len(),"snapshot":manifest.latest_snapshot.is_some()}));
    }
}
