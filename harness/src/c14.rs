//! C14 tenant vector quotas are exact (real server binary over gRPC).
//!
//! Black-box oracles only: (1) every single Insert of a NEW id is itself a probe: it must succeed
//! iff the tenant's model holds fewer live documents than its limit; (2) at quiescent points the
//! count is read by inserting fresh probe ids until RESOURCE_EXHAUSTED (accepted = limit - count)
//! and compared with a BulkQuery census; (3) concurrent pairs on one id from two connections,
//! repeated; (4) graceful and SIGKILL restarts (start-up recount).

use crate::srv::*;
use crate::util::*;
use kyrodb_engine::proto::{metadata_filter::FilterType, ExactMatch, InsertRequest, MetadataFilter};
use serde_json::{json, Value};
use std::collections::{BTreeMap, HashMap};
use tonic::Code;

const PROBE_BASE: u64 = 1_000_000;

fn vecf(rng: &mut Rng, dim: usize) -> Vec<f32> {
    crate::model::gen_unit_vec(rng, dim)
}

struct T {
    cl: Cl,
    limit: usize,
    /// live workload documents: id -> tag metadata value
    model: BTreeMap<u64, String>,
    universe: Vec<u64>,
}

fn census(t: &mut T) -> Result<BTreeMap<u64, String>, String> {
    let r = t.cl.bulk_query(t.universe.clone(), false, "").map_err(|e| format!("census failed: {}", e))?;
    let mut m = BTreeMap::new();
    for q in r.results {
        if q.found {
            m.insert(q.doc_id, q.metadata.get("tag").cloned().unwrap_or_default());
        }
    }
    Ok(m)
}

/// accepted fresh inserts until refusal (probe docs are removed again)
fn probe(t: &mut T, rng: &mut Rng, dim: usize) -> Result<usize, String> {
    let mut accepted = Vec::new();
    for i in 0..(t.limit + 3) {
        let id = PROBE_BASE + i as u64;
        match t.cl.insert(id, vecf(rng, dim), HashMap::new(), "") {
            Ok(r) if r.success => accepted.push(id),
            Ok(r) => return Err(format!("probe insert answered success=false: {}", r.error)),
            Err(s) if s.code() == Code::ResourceExhausted => break,
            Err(s) => return Err(format!("probe insert failed with {:?}: {}", s.code(), s.message())),
        }
    }
    let n = accepted.len();
    if !accepted.is_empty() {
        let r = t.cl.batch_delete_ids(accepted.clone(), "").map_err(|e| format!("probe cleanup failed: {}", e))?;
        if r.deleted_count != n as u64 {
            return Err(format!("probe cleanup deleted {} of {}", r.deleted_count, n));
        }
    }
    Ok(n)
}

pub fn run(args: &Args) -> Out {
    let mut out = Out::new("C14", "quota");
    let Some(bin) = args.get("server").map(|s| s.to_string()) else {
        out.note("no server binary");
        return out;
    };
    let rt = new_rt();
    let only: Option<usize> = args.replay.as_ref().and_then(|p| {
        let v: Value = serde_json::from_str(&std::fs::read_to_string(p).ok()?).ok()?;
        v["replay"]["case"].as_u64().map(|x| x as usize)
    });
    for idx in 0..args.n(144, 1440) {
        if let Some(o) = only {
            if o != idx {
                continue;
            }
        } else if !args.mine(idx) {
            continue;
        }
        run_case(args.seed, idx, &bin, &rt, &mut out);
    }
    out
}

fn run_case(seed: u64, idx: usize, bin: &str, rt: &std::sync::Arc<tokio::runtime::Runtime>, out: &mut Out) {
    let mut rng = Rng::derive(seed, idx as u64, 0xC14);
    let dim = 4;
    let limit = rng.range(2, 8) as usize;
    let cfg = SrvCfg {
        dim,
        tenants: vec![
            TenantSpec { id: "alpha".into(), max_vectors: limit, max_qps: 0, enabled: true, admin: false },
            TenantSpec { id: "beta".into(), max_vectors: 1000, max_qps: 0, enabled: true, admin: false },
        ],
        fsync: if idx % 2 == 0 { "full" } else { "data_only" },
        snapshot_interval: *rng.pick(&[3u64, 50, 1000]),
        max_wal: *rng.pick(&[512u64, 1 << 20]),
        ..Default::default()
    };
    let mut srv = Srv::new(cfg, bin, rt.clone());
    if let Err(e) = srv.start() {
        out.inconclusive(format!("server start failed: {}", e));
        return;
    }
    let mut history: Vec<Value> = Vec::new();
    let desc = |h: &Vec<Value>| json!({"check":"C14","seed":seed,"case":idx,"limit":limit,"history":h.iter().rev().take(60).rev().collect::<Vec<_>>()});
    let mk = |srv: &Srv| -> Result<(Cl, Cl, Cl), String> { Ok((srv.tenant_client("alpha")?, srv.tenant_client("alpha")?, srv.tenant_client("beta")?)) };
    let (cl, mut cl2, mut other) = match mk(&srv) {
        Ok(x) => x,
        Err(e) => {
            out.inconclusive(format!("client: {}", e));
            return;
        }
    };
    let universe: Vec<u64> = (1..=(limit as u64 + 4)).collect();
    let mut t = T { cl, limit, model: BTreeMap::new(), universe: universe.clone() };
    let mut probes = 0u64;
    let mut single_insert_probes = 0u64;
    let mut rpcs = 0u64;
    macro_rules! viol {
        ($sig:expr, $($fmt:tt)*) => {{
            out.violation($sig, format!($($fmt)*), desc(&history));
            return;
        }};
    }
    macro_rules! quiescent_check {
        ($why:expr) => {{
            match census(&mut t) {
                Ok(live) => {
                    if live != t.model {
                        viol!("census-differs-from-model", "case {} ({}): live documents of the tenant {:?} differ from the model {:?}", idx, $why, live, t.model);
                    }
                }
                Err(e) => {
                    out.inconclusive(e);
                    return;
                }
            }
            match probe(&mut t, &mut rng, dim) {
                Ok(accepted) => {
                    probes += 1;
                    let expected = t.limit - t.model.len().min(t.limit);
                    if accepted != expected {
                        let sig = if accepted > expected { "quota-undercount|tenant-can-exceed-limit" } else { "quota-overcount|refused-below-limit" };
                        viol!(
                            sig,
                            "case {} ({}): limit {} with {} live documents: {} fresh inserts were accepted before RESOURCE_EXHAUSTED, expected {} (server count = {})",
                            idx, $why, t.limit, t.model.len(), accepted, expected, t.limit as i64 - accepted as i64
                        );
                    }
                }
                Err(e) => {
                    out.inconclusive(format!("probe: {}", e));
                    return;
                }
            }
        }};
    }

    // ---- sequential phase
    let steps = rng.range(25, 60);
    for step in 0..steps {
        let id = *rng.pick(&universe);
        let tag = format!("s{}", step);
        let mut meta = HashMap::new();
        meta.insert("tag".to_string(), tag.clone());
        rpcs += 1;
        match rng.below(100) {
            0..=39 => {
                let is_new = !t.model.contains_key(&id);
                let r = t.cl.insert(id, vecf(&mut rng, dim), meta, "");
                history.push(json!({"op":"insert","id":id,"new":is_new,"live":t.model.len(),"result":format!("{:?}", r.as_ref().map(|x| x.success).map_err(|e| e.code()))}));
                if is_new {
                    single_insert_probes += 1;
                }
                match r {
                    Ok(x) if x.success => {
                        if is_new && t.model.len() >= t.limit {
                            viol!("insert-accepted-at-limit", "case {} step {}: insert of new id {} accepted although the tenant already holds {} = limit documents", idx, step, id, t.model.len());
                        }
                        t.model.insert(id, tag);
                    }
                    Err(s) if s.code() == Code::ResourceExhausted => {
                        if !is_new {
                            viol!("overwrite-refused-by-quota", "case {} step {}: overwrite of live id {} refused by the quota", idx, step, id);
                        }
                        if t.model.len() < t.limit {
                            viol!("insert-refused-below-limit", "case {} step {}: insert of new id {} refused although the tenant holds only {} of {} documents", idx, step, id, t.model.len(), t.limit);
                        }
                    }
                    other => {
                        out.inconclusive(format!("insert answered {:?}", other.map(|x| x.error).map_err(|e| e.to_string())));
                        return;
                    }
                }
            }
            40..=54 => {
                let r = t.cl.delete(id, "");
                history.push(json!({"op":"delete","id":id,"present":t.model.contains_key(&id)}));
                match r {
                    Ok(x) => {
                        let had = t.model.remove(&id).is_some();
                        if x.existed != had {
                            viol!("delete-existed-mismatch", "case {} step {}: delete({}) existed={} model={}", idx, step, id, x.existed, had);
                        }
                    }
                    Err(e) => {
                        out.inconclusive(format!("delete failed: {}", e));
                        return;
                    }
                }
            }
            55..=64 => {
                // duplicates adjacent or not, absent ids
                let mut ids = vec![id, id, *rng.pick(&universe), 999, id];
                rng.shuffle(&mut ids);
                history.push(json!({"op":"batch_delete","ids":ids}));
                match t.cl.batch_delete_ids(ids.clone(), "") {
                    Ok(x) => {
                        let mut n = 0;
                        for i in &ids {
                            if t.model.remove(i).is_some() {
                                n += 1;
                            }
                        }
                        if x.deleted_count != n {
                            viol!("batch-delete-count-mismatch", "case {} step {}: batch delete {:?} reported {} deleted, model removed {}", idx, step, ids, x.deleted_count, n);
                        }
                    }
                    Err(e) => {
                        out.inconclusive(format!("batch delete failed: {}", e));
                        return;
                    }
                }
            }
            65..=70 => {
                // by filter: everything tagged like one live document
                if let Some((_, tg)) = t.model.iter().next().map(|(k, v)| (*k, v.clone())) {
                    history.push(json!({"op":"batch_delete_filter","tag":tg}));
                    let f = MetadataFilter { filter_type: Some(FilterType::Exact(ExactMatch { key: "tag".into(), value: tg.clone() })) };
                    match t.cl.batch_delete_filter(f, "") {
                        Ok(x) => {
                            let before = t.model.len();
                            t.model.retain(|_, v| *v != tg);
                            if x.deleted_count != (before - t.model.len()) as u64 {
                                viol!("batch-delete-count-mismatch", "case {} step {}: filtered batch delete reported {} deleted, model removed {}", idx, step, x.deleted_count, before - t.model.len());
                            }
                        }
                        Err(e) => {
                            out.inconclusive(format!("filtered delete failed: {}", e));
                            return;
                        }
                    }
                }
            }
            71..=82 => {
                // bulk insert / bulk load with a duplicate id inside the batch and rejected items; kept within the limit
                let room = t.limit - t.model.len().min(t.limit);
                let mut items = Vec::new();
                let mut new_ids = Vec::new();
                for u in &universe {
                    if !t.model.contains_key(u) && new_ids.len() < room.min(2) {
                        new_ids.push(*u);
                    }
                }
                for u in &new_ids {
                    items.push(InsertRequest { doc_id: *u, embedding: vecf(&mut rng, dim), metadata: meta.clone(), namespace: String::new() });
                }
                if let Some(u) = new_ids.first() {
                    items.push(InsertRequest { doc_id: *u, embedding: vecf(&mut rng, dim), metadata: meta.clone(), namespace: String::new() });
                }
                if let Some((k, _)) = t.model.iter().next() {
                    items.push(InsertRequest { doc_id: *k, embedding: vecf(&mut rng, dim), metadata: meta.clone(), namespace: String::new() });
                }
                // rejected items
                items.push(InsertRequest { doc_id: 0, embedding: vecf(&mut rng, dim), metadata: meta.clone(), namespace: String::new() });
                items.push(InsertRequest { doc_id: universe[0], embedding: vec![], metadata: meta.clone(), namespace: String::new() });
                items.push(InsertRequest { doc_id: *universe.last().unwrap(), embedding: vec![f32::NAN; dim], metadata: meta.clone(), namespace: String::new() });
                items.push(InsertRequest { doc_id: universe[1], embedding: vec![0.5; dim + 1], metadata: meta.clone(), namespace: String::new() });
                let via_load = rng.chance(0.5);
                history.push(json!({"op": if via_load {"bulk_load"} else {"bulk_insert"}, "new_ids": new_ids, "items": items.len()}));
                let ok = if via_load { t.cl.bulk_load(items).map(|_| ()) } else { t.cl.bulk_insert(items).map(|_| ()) };
                match ok {
                    Ok(()) => {}
                    // a multi-document batch that would cross the limit may be refused as a whole (not judged)
                    Err(s) if s.code() == Code::ResourceExhausted => {}
                    Err(e) => {
                        out.inconclusive(format!("bulk write failed: {}", e));
                        return;
                    }
                }
                // learn the outcome by census (per-item acceptance of a valid item is the server's choice)
                match census(&mut t) {
                    Ok(live) => {
                        if live.len() > t.limit {
                            viol!("tenant-holds-more-than-limit", "case {} step {}: after a bulk write the tenant holds {} live documents, limit {}", idx, step, live.len(), t.limit);
                        }
                        t.model = live;
                    }
                    Err(e) => {
                        out.inconclusive(e);
                        return;
                    }
                }
            }
            83..=90 => {
                // failed single writes: wrong dimension / NaN, as new id and as overwrite
                let bad: Vec<f32> = if rng.chance(0.5) { vec![0.5; dim + 1] } else { vec![f32::NAN; dim] };
                history.push(json!({"op":"invalid_insert","id":id}));
                if let Ok(x) = t.cl.insert(id, bad, meta, "") {
                    if x.success {
                        viol!("invalid-insert-accepted", "case {} step {}: invalid vector accepted for id {}", idx, step, id);
                    }
                }
            }
            91..=95 => {
                // the other tenant writes the same local ids
                let _ = other.insert(id, vecf(&mut rng, dim), HashMap::new(), "");
                history.push(json!({"op":"other_tenant_insert","id":id}));
            }
            _ => {
                history.push(json!({"op":"quiescent-check"}));
                quiescent_check!("sequential phase");
            }
        }
    }
    quiescent_check!("end of sequential phase");

    // ---- concurrent pairs on one id from two connections
    let pair_kinds = ["insert||delete", "overwrite||delete", "bulk||delete", "insert||insert"];
    let reps = 150;
    let id = universe[0];
    let kind = pair_kinds[idx % pair_kinds.len()];
    for rep in 0..reps {
        // establish the precondition
        let need_present = kind != "insert||delete" && kind != "insert||insert" && kind != "bulk||delete" || (kind == "bulk||delete" && rep % 2 == 0);
        let present = t.model.contains_key(&id);
        if need_present && !present {
            if t.model.len() >= t.limit {
                if let Some(k) = t.model.keys().copied().find(|k| *k != id) {
                    let _ = t.cl.delete(k, "");
                    t.model.remove(&k);
                }
            }
            let mut m = HashMap::new();
            m.insert("tag".to_string(), "pre".to_string());
            if t.cl.insert(id, vecf(&mut rng, dim), m, "").map(|r| r.success).unwrap_or(false) {
                t.model.insert(id, "pre".into());
            }
        } else if !need_present && present {
            let _ = t.cl.delete(id, "");
            t.model.remove(&id);
        }
        if !need_present && t.model.len() >= t.limit {
            if let Some(k) = t.model.keys().copied().next() {
                let _ = t.cl.delete(k, "");
                t.model.remove(&k);
            }
        }
        let mut m = HashMap::new();
        m.insert("tag".to_string(), format!("c{}", rep));
        let v1 = vecf(&mut rng, dim);
        let v2 = vecf(&mut rng, dim);
        let mut a = t.cl.clone();
        let mut b = cl2.clone();
        let (m1, m2) = (m.clone(), m.clone());
        let kind_s = kind.to_string();
        // randomise which request reaches the server first and by how much
        let (d1, d2) = if rng.chance(0.5) { (rng.below(400), 0) } else { (0, rng.below(400)) };
        let h1 = std::thread::spawn(move || { std::thread::sleep(std::time::Duration::from_micros(d1)); match kind_s.as_str() {
            "bulk||delete" => format!("{:?}", a.bulk_insert(vec![InsertRequest { doc_id: id, embedding: v1, metadata: m1, namespace: String::new() }]).map(|r| (r.total_inserted, r.total_failed)).map_err(|e| e.code())),
            _ => format!("{:?}", a.insert(id, v1, m1, "").map(|r| r.success).map_err(|e| e.code())),
        }});
        let kind_s = kind.to_string();
        let h2 = std::thread::spawn(move || { std::thread::sleep(std::time::Duration::from_micros(d2)); match kind_s.as_str() {
            "insert||insert" => format!("{:?}", b.insert(id, v2, m2, "").map(|r| r.success).map_err(|e| e.code())),
            _ => format!("existed={:?}", b.delete(id, "").map(|r| r.existed).map_err(|e| e.code())),
        }});
        let r1 = h1.join().unwrap_or_default();
        let r2 = h2.join().unwrap_or_default();
        rpcs += 2;
        // quiescent: learn the live state of that id
        match t.cl.query(id, false, "") {
            Ok(q) => {
                if q.found {
                    t.model.insert(id, q.metadata.get("tag").cloned().unwrap_or_default());
                } else {
                    t.model.remove(&id);
                }
            }
            Err(e) => {
                out.inconclusive(format!("query failed: {}", e));
                return;
            }
        }
        history.push(json!({"op":"concurrent-pair","kind":kind,"rep":rep,"id":id,"first":r1,"second":r2,"live_after":t.model.contains_key(&id)}));
        let every = std::env::var("VERIF_C14_PROBE_EVERY").ok().and_then(|v| v.parse::<usize>().ok()).unwrap_or(6);
        if rep % every == every - 1 {
            quiescent_check!(format!("after {} repetitions of {}", rep + 1, kind));
        }
    }
    quiescent_check!(format!("end of concurrent phase {}", kind));

    // ---- restarts at quiescent points (start-up recount)
    for round in 0..2 {
        let graceful = (idx + round) % 2 == 0;
        history.push(json!({"op":"restart","graceful":graceful}));
        if graceful {
            let _ = srv.term();
        } else {
            srv.kill9();
        }
        if let Err(e) = srv.start() {
            if !e.contains("exited during start-up") {
                out.inconclusive(format!("case {}: restart watchdog: {}", idx, e));
                return;
            }
            viol!("restart-failed", "case {}: server does not start after a {} stop at a quiescent point: {}", idx, if graceful { "graceful" } else { "SIGKILL" }, e);
        }
        match mk(&srv) {
            Ok((a, b, c)) => {
                t.cl = a;
                cl2 = b;
                other = c;
            }
            Err(e) => {
                out.inconclusive(e);
                return;
            }
        }
        quiescent_check!(format!("after {} restart", if graceful { "graceful" } else { "SIGKILL" }));
        // and the limit still binds for single inserts
        let mut m = HashMap::new();
        m.insert("tag".to_string(), "post".to_string());
        if let Some(free) = universe.iter().find(|u| !t.model.contains_key(u)) {
            let r = t.cl.insert(*free, vecf(&mut rng, dim), m, "");
            let ok = matches!(&r, Ok(x) if x.success);
            let refused = matches!(&r, Err(s) if s.code() == Code::ResourceExhausted);
            if t.model.len() < t.limit && !ok {
                viol!("insert-refused-below-limit", "case {}: after restart an insert below the limit ({} of {}) was refused", idx, t.model.len(), t.limit);
            }
            if t.model.len() >= t.limit && !refused {
                viol!("insert-accepted-at-limit", "case {}: after restart an insert at the limit was accepted", idx);
            }
            if ok {
                t.model.insert(*free, "post".into());
            }
        }
    }
    out.eval();
    out.count("rpc_calls", rpcs);
    out.count("quota_probes", probes);
    out.count("single_insert_admission_probes", single_insert_probes);
    out.distinct(&(idx, limit, kind, history.len()));
    if idx % 5 == 0 {
        out.sample(json!({"case": idx, "limit": limit, "pair": kind, "history_tail": history.iter().rev().take(5).collect::<Vec<_>>()}));
    }
}
