//! C15 every request gets an answer and invalid input is refused without effect (real server).
//!
//! Structured, seeded request generator per RPC x field x boundary / pathological values, singly
//! and in streams mixing valid and invalid items, each invalid item also as an overwrite of a live
//! id. Oracle: an answer (status or response) arrives, the process stays alive, Health answers,
//! the census (live, after graceful restart, after SIGKILL restart) equals the model; non-finite
//! vectors are refused on every write path.

use crate::model::gen_unit_vec;
use crate::srv::*;
use crate::util::*;
use kyrodb_engine::proto::{metadata_filter::FilterType, range_match, AndFilter, ExactMatch, InMatch, InsertRequest, MetadataFilter, NotFilter, OrFilter, RangeMatch, SearchRequest};
use serde_json::{json, Value};
use std::collections::{BTreeMap, HashMap};

const DIM: usize = 4;

#[derive(Clone, Debug, PartialEq)]
struct D {
    vec: Vec<f32>,
    meta: BTreeMap<String, String>,
}

fn vec_class(rng: &mut Rng, class: &str) -> Vec<f32> {
    let good = gen_unit_vec(rng, DIM);
    match class {
        "valid" => good,
        "empty" => vec![],
        "dim-4096" => vec![0.015625; 4096],
        "dim-4097" => vec![0.015625; 4097],
        "dim-minus-1" => good[..DIM - 1].to_vec(),
        "dim-plus-1" => {
            let mut v = good;
            v.push(0.1);
            v
        }
        "zeros" => vec![0.0; DIM],
        "nan" => {
            let mut v = good;
            v[rng.usize_below(DIM)] = f32::NAN;
            v
        }
        "pos-inf" => {
            let mut v = good;
            v[rng.usize_below(DIM)] = f32::INFINITY;
            v
        }
        "neg-inf" => {
            let mut v = good;
            v[rng.usize_below(DIM)] = f32::NEG_INFINITY;
            v
        }
        "f32-max" => vec![f32::MAX, -f32::MAX, f32::MAX, 1.0],
        "subnormal" => vec![1e-40; DIM],
        _ => good,
    }
}

const VEC_CLASSES: [&str; 12] = ["valid", "empty", "dim-4096", "dim-4097", "dim-minus-1", "dim-plus-1", "zeros", "nan", "pos-inf", "neg-inf", "f32-max", "subnormal"];
const NON_FINITE: [&str; 3] = ["nan", "pos-inf", "neg-inf"];

fn nested_not(depth: usize) -> MetadataFilter {
    let mut f = MetadataFilter { filter_type: Some(FilterType::Exact(ExactMatch { key: "tag".into(), value: "a".into() })) };
    for _ in 0..depth {
        f = MetadataFilter { filter_type: Some(FilterType::NotFilter(Box::new(NotFilter { filter: Some(Box::new(f)) }))) };
    }
    f
}

fn filter_class(class: &str) -> MetadataFilter {
    match class {
        "empty-oneof" => MetadataFilter { filter_type: None },
        "not-without-operand" => MetadataFilter { filter_type: Some(FilterType::NotFilter(Box::new(NotFilter { filter: None }))) },
        "empty-and" => MetadataFilter { filter_type: Some(FilterType::AndFilter(AndFilter { filters: vec![] })) },
        "empty-or" => MetadataFilter { filter_type: Some(FilterType::OrFilter(OrFilter { filters: vec![] })) },
        "depth-50" => nested_not(50),
        "depth-99" => nested_not(99),
        "depth-100" => nested_not(100),
        "depth-101" => nested_not(101),
        "depth-200" => nested_not(200),
        "in-100k" => MetadataFilter { filter_type: Some(FilterType::InMatch(InMatch { key: "tag".into(), values: (0..100_000).map(|i| format!("v{}", i)).collect() })) },
        _ => MetadataFilter { filter_type: Some(FilterType::Exact(ExactMatch { key: "tag".into(), value: "a".into() })) },
    }
}
/// random filter tree whose leaves and inner nodes may be malformed (empty oneof, empty lists,
/// NOT without operand, range without bound, empty keys)
fn gen_filter_tree(rng: &mut Rng, depth: usize) -> MetadataFilter {
    let leaf = |rng: &mut Rng| -> Option<FilterType> {
        match rng.below(7) {
            0 => None,
            1 => Some(FilterType::Exact(ExactMatch { key: "tag".into(), value: "a".into() })),
            2 => Some(FilterType::Exact(ExactMatch { key: String::new(), value: String::new() })),
            3 => Some(FilterType::InMatch(InMatch { key: "tag".into(), values: vec![] })),
            4 => Some(FilterType::Range(RangeMatch { key: "tag".into(), bound: None })),
            5 => Some(FilterType::Range(RangeMatch { key: "n".into(), bound: Some(range_match::Bound::Gte(["1", "", "nan", "+inf", "1e999"][rng.usize_below(5)].to_string())) })),
            _ => Some(FilterType::InMatch(InMatch { key: String::new(), values: vec![String::new()] })),
        }
    };
    if depth == 0 || rng.chance(0.3) {
        return MetadataFilter { filter_type: leaf(rng) };
    }
    let n = rng.below(4) as usize;
    let ft = match rng.below(4) {
        0 => FilterType::AndFilter(AndFilter { filters: (0..n).map(|_| gen_filter_tree(rng, depth - 1)).collect() }),
        1 => FilterType::OrFilter(OrFilter { filters: (0..n).map(|_| gen_filter_tree(rng, depth - 1)).collect() }),
        2 => FilterType::NotFilter(Box::new(NotFilter { filter: None })),
        _ => FilterType::NotFilter(Box::new(NotFilter { filter: Some(Box::new(gen_filter_tree(rng, depth - 1))) })),
    };
    MetadataFilter { filter_type: Some(ft) }
}

/// every filter shape of depth <= 2 over {no filter_type, exact, empty IN list, range without bound} x
/// {AND, OR (arity 0..2), NOT (with / without operand)}: ~570 small, mostly malformed trees
fn enum_filter_shapes() -> Vec<MetadataFilter> {
    let mk = |ft: Option<FilterType>| MetadataFilter { filter_type: ft };
    let leaves: Vec<MetadataFilter> = vec![
        mk(None),
        mk(Some(FilterType::Exact(ExactMatch { key: "tag".into(), value: "a".into() }))),
        mk(Some(FilterType::InMatch(InMatch { key: "tag".into(), values: vec![] }))),
        mk(Some(FilterType::Range(RangeMatch { key: "tag".into(), bound: None }))),
    ];
    let and = |v: Vec<MetadataFilter>| mk(Some(FilterType::AndFilter(AndFilter { filters: v })));
    let or = |v: Vec<MetadataFilter>| mk(Some(FilterType::OrFilter(OrFilter { filters: v })));
    let not = |f: Option<MetadataFilter>| mk(Some(FilterType::NotFilter(Box::new(NotFilter { filter: f.map(Box::new) }))));
    let mut d1: Vec<MetadataFilter> = vec![and(vec![]), or(vec![]), not(None)];
    for l in &leaves {
        d1.push(not(Some(l.clone())));
        d1.push(and(vec![l.clone()]));
        d1.push(or(vec![l.clone()]));
        for l2 in &leaves {
            d1.push(and(vec![l.clone(), l2.clone()]));
            d1.push(or(vec![l.clone(), l2.clone()]));
        }
    }
    let mut out = leaves.clone();
    out.extend(d1.iter().cloned());
    for f in &d1 {
        out.push(not(Some(f.clone())));
        out.push(and(vec![f.clone()]));
        out.push(or(vec![f.clone()]));
        for l in &leaves {
            out.push(and(vec![f.clone(), l.clone()]));
            out.push(or(vec![l.clone(), f.clone()]));
        }
    }
    out
}

const FILTER_CLASSES: [&str; 11] = ["exact", "empty-oneof", "not-without-operand", "empty-and", "empty-or", "depth-50", "depth-99", "depth-100", "depth-101", "depth-200", "in-100k"];

pub fn run(args: &Args) -> Out {
    let mut out = Out::new("C15", "request-fuzz");
    let Some(bin) = args.get("server").map(|s| s.to_string()) else {
        out.note("no server binary");
        return out;
    };
    let rt = new_rt();
    let only: Option<usize> = args.replay.as_ref().and_then(|p| {
        let v: Value = serde_json::from_str(&std::fs::read_to_string(p).ok()?).ok()?;
        v["replay"]["case"].as_u64().map(|x| x as usize)
    });
    for idx in 0..args.n(128, 3200) {
        if let Some(o) = only {
            if o != idx {
                continue;
            }
        } else if !args.mine(idx) {
            continue;
        }
        run_case(args.seed, idx, &bin, &rt, &mut out);
    }
    out
}

fn run_case(seed: u64, idx: usize, bin: &str, rt: &std::sync::Arc<tokio::runtime::Runtime>, out: &mut Out) {
    let mut rng = Rng::derive(seed, idx as u64, 0xC15);
    let distance: &'static str = *rng.pick(&["cosine", "euclidean", "innerproduct"]);
    // classes the validators must refuse regardless of the metric
    let must_refuse = |c: &str| matches!(c, "empty" | "dim-4096" | "dim-4097" | "dim-minus-1" | "dim-plus-1" | "nan" | "pos-inf" | "neg-inf") || (distance != "euclidean" && matches!(c, "zeros" | "subnormal" | "f32-max"));
    let cfg = SrvCfg {
        dim: DIM,
        distance,
        // two tenants: whichever of them gets a tenant index >= 1 exercises the id mapping with a prefix
        tenants: vec![
            TenantSpec { id: "first".into(), max_vectors: 100_000, max_qps: 0, enabled: true, admin: false },
            TenantSpec { id: "solo".into(), max_vectors: 100_000, max_qps: 0, enabled: true, admin: false },
        ],
        fsync: "data_only",
        snapshot_interval: *rng.pick(&[7u64, 1000]),
        max_wal: *rng.pick(&[2048u64, 1 << 20]),
        ..Default::default()
    };
    let who = if idx % 2 == 0 { "solo" } else { "first" };
    let mut srv = Srv::new(cfg, bin, rt.clone());
    if let Err(e) = srv.start() {
        out.inconclusive(format!("server start failed: {}", e));
        return;
    }
    let mut cl = match srv.tenant_client(who) {
        Ok(c) => c,
        Err(e) => {
            out.inconclusive(e);
            return;
        }
    };
    let ids: Vec<u64> = vec![1, 2, 3, 4, u32::MAX as u64];
    let mut model: BTreeMap<u64, D> = BTreeMap::new();
    let mut history: Vec<Value> = Vec::new();
    let mut rpcs = 0u64;
    let mut refused = 0u64;
    let mut boundary_accepted = 0u64;
    let mut t0 = std::time::Instant::now();
    let mut slowest = (String::new(), 0u64);
    macro_rules! viol {
        ($sig:expr, $($fmt:tt)*) => {{
            out.violation($sig, format!($($fmt)*), json!({"check":"C15","seed":seed,"case":idx,"history":history.iter().rev().take(40).rev().collect::<Vec<_>>()}));
            return;
        }};
    }
    // answered = any gRPC status or response; a transport error while the process is gone is a crash
    macro_rules! answered {
        ($what:expr, $r:expr) => {{
            rpcs += 1;
            let el = t0.elapsed().as_millis() as u64;
            t0 = std::time::Instant::now();
            if el > slowest.1 {
                slowest = (format!("{}", $what), el);
            }
            match &$r {
                Ok(_) => {}
                Err(s) => {
                    refused += 1;
                    let transport = matches!(s.code(), tonic::Code::Unavailable | tonic::Code::Unknown | tonic::Code::Cancelled | tonic::Code::DeadlineExceeded);
                    // a dying process closes its sockets before it can be reaped: give it a moment
                    let mut dead = false;
                    if transport {
                        for _ in 0..25 {
                            if !srv.alive() {
                                dead = true;
                                break;
                            }
                            std::thread::sleep(std::time::Duration::from_millis(20));
                        }
                    }
                    if dead {
                        if srv.killed_from_outside() {
                            // SIGKILL / SIGTERM are never raised by the server itself
                            out.inconclusive(format!("case {}: the server was ended by {:?} from outside during {}", idx, srv.exit_status(), $what));
                            return;
                        }
                        viol!(format!("server-died|{}", $what), "request {} killed the server ({:?}: {}; process ended with {:?})", $what, s.code(), s.message().chars().take(160).collect::<String>(), srv.exit_status());
                    }
                    // the connection broke instead of carrying a status: the request was not answered
                    // (the server is alive: a fresh connection is used from here on)
                    if transport && s.message().contains("transport error") {
                        let fresh_ok = srv.tenant_client(who).ok().map(|mut c| c.health().is_ok()).unwrap_or(false);
                        if fresh_ok {
                            viol!(format!("request-unanswered|{}|connection-broken", $what), "request {} broke the connection instead of being answered with a status ({:?}: {}); the server is alive and answers Health on a fresh connection", $what, s.code(), s.message().chars().take(160).collect::<String>());
                        }
                    }
                    if s.code() == tonic::Code::DeadlineExceeded {
                        viol!(format!("no-answer|{}", $what), "request {} got no answer within 60 s while the server is alive", $what);
                    }
                }
            }
        }};
    }
    let tag = |s: &str| -> HashMap<String, String> {
        let mut m = HashMap::new();
        m.insert("tag".to_string(), s.to_string());
        m
    };
    // seed documents
    for id in &ids[..3] {
        let v = gen_unit_vec(&mut rng, DIM);
        if cl.insert(*id, v.clone(), tag("a"), "").map(|r| r.success).unwrap_or(false) {
            model.insert(*id, D { vec: v, meta: [("tag".to_string(), "a".to_string())].into_iter().collect() });
        }
    }
    let steps = rng.range(40, 90);
    for step in 0..steps {
        let id = *rng.pick(&ids);
        let vclass = *rng.pick(&VEC_CLASSES);
        let v = vec_class(&mut rng, vclass);
        let t = format!("s{}", step);
        let kind = rng.below(100);
        t0 = std::time::Instant::now();
        match kind {
            0..=19 => {
                // single insert, every vector class, boundary ids
                let bid = *rng.pick(&[id, id, 0u64, u32::MAX as u64 + 1, u64::MAX]);
                history.push(json!({"step":step,"rpc":"Insert","id":bid.to_string(),"vector":vclass}));
                let r = cl.insert(bid, v.clone(), tag(&t), "");
                answered!("Insert", r);
                let accepted = matches!(&r, Ok(x) if x.success);
                let refusable = must_refuse(vclass) || bid < 1 || bid > u32::MAX as u64;
                if accepted && refusable {
                    if NON_FINITE.contains(&vclass) {
                        viol!("non-finite-vector-accepted|Insert", "step {}: Insert accepted a {} vector", step, vclass);
                    }
                    viol!(format!("invalid-request-accepted|Insert|{}", if vclass != "valid" { vclass } else { "id" }), "step {}: Insert(id {}, {} vector) was accepted", step, bid, vclass);
                }
                if accepted {
                    if vclass != "valid" {
                        boundary_accepted += 1;
                    }
                    model.insert(bid, D { vec: v, meta: [("tag".to_string(), t.clone())].into_iter().collect() });
                }
            }
            20..=39 => {
                // streams mixing valid and invalid items (BulkInsert / BulkLoadHnsw)
                let mut items = Vec::new();
                let mut valid_items: Vec<(u64, Vec<f32>)> = Vec::new();
                let n = rng.range(2, 6);
                let mut desc = Vec::new();
                let mut non_finite_items = 0u64;
                for _ in 0..n {
                    let c = *rng.pick(&VEC_CLASSES);
                    let live = *rng.pick(&ids);
                    let iid = *rng.pick(&[live, live, 0u64, u32::MAX as u64 + 1]);
                    let iv = vec_class(&mut rng, c);
                    desc.push(format!("{}:{}", iid, c));
                    if !must_refuse(c) && iid >= 1 && iid <= u32::MAX as u64 {
                        valid_items.push((iid, iv.clone()));
                    } else if NON_FINITE.contains(&c) {
                        non_finite_items += 1;
                    }
                    items.push(InsertRequest { doc_id: iid, embedding: iv, metadata: tag(&t), namespace: String::new() });
                }
                let via_load = rng.chance(0.5);
                history.push(json!({"step":step,"rpc": if via_load {"BulkLoadHnsw"} else {"BulkInsert"},"items":desc}));
                let sent = items.len() as u64;
                let (ok_cnt, fail_cnt) = if via_load {
                    let r = cl.bulk_load(items);
                    answered!("BulkLoadHnsw", r);
                    match r {
                        Ok(x) => (x.total_loaded, x.total_failed),
                        Err(_) => (0, sent),
                    }
                } else {
                    let r = cl.bulk_insert(items);
                    answered!("BulkInsert", r);
                    match r {
                        Ok(x) => (x.total_inserted, x.total_failed),
                        Err(_) => (0, sent),
                    }
                };
                if ok_cnt + fail_cnt != sent {
                    viol!("stream-items-not-accounted", "step {}: stream of {} items answered inserted {} + failed {}", step, sent, ok_cnt, fail_cnt);
                }
                if ok_cnt > valid_items.len() as u64 {
                    // attribute to the non-finite clause only when every refusable item of the stream is non-finite
                    if non_finite_items > 0 && non_finite_items == sent - valid_items.len() as u64 {
                        viol!(format!("non-finite-vector-accepted|{}", if via_load { "BulkLoadHnsw" } else { "BulkInsert" }), "step {}: stream {:?} reports {} accepted items but only {} are acceptable", step, desc, ok_cnt, valid_items.len());
                    }
                    viol!("invalid-stream-item-accepted", "step {}: stream with {} valid items reports {} accepted ({:?})", step, valid_items.len(), ok_cnt, desc);
                }
                // learn which acceptable items are visible (an acceptable item the server refused is not
                // a violation); the stored vector must be one of the acceptable vectors sent for that id
                let by_id: BTreeMap<u64, Vec<Vec<f32>>> = valid_items.iter().fold(BTreeMap::new(), |mut m, (i, v)| {
                    m.entry(*i).or_insert_with(Vec::new).push(v.clone());
                    m
                });
                for (iid, cands) in by_id {
                    if let Ok(q) = cl.query(iid, true, "") {
                        if q.found && q.metadata.get("tag") == Some(&t) {
                            match cands.iter().find(|c| c.len() == q.embedding.len() && c.iter().zip(q.embedding.iter()).all(|(a, b)| a.to_bits() == b.to_bits())) {
                                Some(c) => {
                                    model.insert(iid, D { vec: c.clone(), meta: [("tag".to_string(), t.clone())].into_iter().collect() });
                                }
                                None => viol!("stream-item-stored-with-foreign-vector", "step {}: id {} carries this stream's metadata but vector {:?}, which no acceptable item of the stream sent ({:?})", step, iid, q.embedding, desc),
                            }
                        }
                    }
                }
            }
            40..=54 => {
                // Search / BulkSearch boundaries
                let k = *rng.pick(&[0u32, 1, 10, 1000, 1001, u32::MAX]);
                let ef = *rng.pick(&[0u32, 1, 10_000, 10_001, u32::MAX]);
                let fc = *rng.pick(&FILTER_CLASSES);
                let ns = if rng.chance(0.1) { "n".repeat(10_000) } else { String::new() };
                let tree = rng.chance(0.4);
                let filter = if tree { Some(gen_filter_tree(&mut rng, 3)) } else if rng.chance(0.6) { Some(filter_class(fc)) } else { None };
                let req = SearchRequest { query_embedding: v.clone(), k, ef_search: ef, namespace: ns, filter: filter.clone(), include_embeddings: rng.chance(0.3), ..Default::default() };
                history.push(json!({"step":step,"rpc":"Search","k":k,"ef":ef,"vector":vclass,"filter": if tree { format!("{:?}", filter).chars().take(300).collect::<String>() } else { fc.to_string() }}));
                if rng.chance(0.4) {
                    // a stream mixing the generated request with valid ones, in a seeded position
                    let good = |rng: &mut Rng| SearchRequest { query_embedding: gen_unit_vec(rng, DIM), k: 2, ..Default::default() };
                    let mut reqs = vec![good(&mut rng), good(&mut rng)];
                    let pos = rng.usize_below(3);
                    reqs.insert(pos, req.clone());
                    let sent = reqs.len();
                    let r = cl.bulk_search(reqs);
                    answered!("BulkSearch", r);
                    if let Ok(items) = &r {
                        // a stream that ends without a status error must carry one answer per request
                        if items.iter().all(|i| i.is_ok()) && items.len() != sent {
                            viol!("request-unanswered|BulkSearch", "step {}: a BulkSearch stream of {} requests (generated request at position {}) ended without error after {} answers", step, sent, pos, items.len());
                        }
                    }
                } else {
                    let r = cl.search(req);
                    answered!("Search", r);
                    if let Ok(x) = &r {
                        let wrong_dim = matches!(vclass, "dim-4096" | "dim-4097" | "dim-minus-1" | "dim-plus-1");
                        if NON_FINITE.contains(&vclass) || vclass == "empty" || wrong_dim || k == 0 || k > 1000 || ef > 10_000 {
                            viol!("invalid-search-answered-with-results", "step {}: Search(k {}, ef {}, {} query) returned {} results instead of a refusal", step, k, ef, vclass, x.results.len());
                        }
                    }
                }
            }
            55..=64 => {
                let bid = *rng.pick(&[id, 0u64, u32::MAX as u64 + 1, u64::MAX]);
                history.push(json!({"step":step,"rpc":"Query/BulkQuery","id":bid.to_string()}));
                let r = cl.query(bid, true, "");
                answered!("Query", r);
                let nids = *rng.pick(&[0usize, 3, 10_000, 10_001]);
                let r = cl.bulk_query((1..=nids as u64).collect(), false, "");
                answered!("BulkQuery", r);
                if nids > 10_000 && r.is_ok() {
                    viol!("oversized-batch-accepted|BulkQuery", "step {}: BulkQuery of {} ids was served", step, nids);
                }
            }
            65..=74 => {
                // UpdateMetadata with reserved keys / huge values, on live and absent ids
                let bid = *rng.pick(&[id, 0u64, u64::MAX]);
                let mut m = tag(&t);
                m.insert("__tenant_id__".into(), "evil".into());
                let big = rng.chance(0.15);
                if big {
                    m.insert("blob".into(), "x".repeat(5 << 20));
                }
                history.push(json!({"step":step,"rpc":"UpdateMetadata","id":bid.to_string(),"big":big}));
                let merge = rng.chance(0.5);
                let r = cl.update_metadata(bid, m.clone(), merge, "");
                answered!("UpdateMetadata", r);
                if let Ok(x) = &r {
                    if x.success && x.existed {
                        if let Some(d) = model.get_mut(&bid) {
                            if !merge {
                                d.meta.clear();
                            }
                            for (k, v) in m {
                                if !k.starts_with("__") {
                                    d.meta.insert(k, v);
                                }
                            }
                        }
                    }
                }
            }
            75..=84 => {
                let bid = *rng.pick(&[id, 0u64, u32::MAX as u64 + 1]);
                history.push(json!({"step":step,"rpc":"Delete","id":bid.to_string()}));
                let r = cl.delete(bid, "");
                answered!("Delete", r);
                if matches!(&r, Ok(x) if x.success) {
                    model.remove(&bid);
                }
            }
            85..=93 => {
                let variant = rng.below(4);
                history.push(json!({"step":step,"rpc":"BatchDelete","variant":variant}));
                match variant {
                    0 => {
                        let r = cl.batch_delete_none();
                        answered!("BatchDelete(no criteria)", r);
                        if r.is_ok() {
                            viol!("invalid-request-accepted|BatchDelete|no-criteria", "step {}: BatchDelete without criteria was served", step);
                        }
                    }
                    1 => {
                        let n = *rng.pick(&[10_000usize, 10_001]);
                        // ids far away from the workload ids
                        let r = cl.batch_delete_ids((1_000_000..1_000_000 + n as u64).collect(), "");
                        answered!("BatchDelete(ids)", r);
                        if n > 10_000 && r.is_ok() {
                            viol!("oversized-batch-accepted|BatchDelete", "step {}: BatchDelete of {} ids was served", step, n);
                        }
                    }
                    2 => {
                        // out-of-range id in the list: the whole request is refused, nothing deleted
                        let r = cl.batch_delete_ids(vec![id, u32::MAX as u64 + 1], "");
                        answered!("BatchDelete(ids out of range)", r);
                        if let Ok(x) = &r {
                            if x.deleted_count > 0 {
                                model.remove(&id);
                            }
                        }
                    }
                    _ => {
                        let fc = *rng.pick(&["depth-101", "depth-200", "not-without-operand", "empty-or", "in-100k"]);
                        if rng.chance(0.4) {
                            // random malformed tree: must be answered; whatever it deletes is learned by the census rule below
                            let f = gen_filter_tree(&mut rng, 3);
                            let r = cl.batch_delete_filter(f, "");
                            answered!("BatchDelete(filter tree)", r);
                            if let Ok(x) = &r {
                                if x.deleted_count > 0 {
                                    // learn the effect: a (possibly match-all) tree legitimately deletes documents
                                    let ids_now: Vec<u64> = model.keys().copied().collect();
                                    for i in ids_now {
                                        if let Ok(q) = cl.query(i, false, "") {
                                            if !q.found {
                                                model.remove(&i);
                                            }
                                        }
                                    }
                                }
                            }
                            continue;
                        }
                        let r = cl.batch_delete_filter(filter_class(fc), "");
                        answered!(format!("BatchDelete(filter {})", fc), r);
                        if let Ok(x) = &r {
                            if x.deleted_count > 0 {
                                viol!("pathological-filter-deleted-documents", "step {}: BatchDelete with filter {} deleted {} documents (it matches none)", step, fc, x.deleted_count);
                            }
                        }
                    }
                }
            }
            _ => {
                history.push(json!({"step":step,"rpc":"CreateSnapshot/Flush/Health"}));
                let r = cl.snapshot(if rng.chance(0.5) { "/tmp/evil/path" } else { "" });
                answered!("CreateSnapshot", r);
                let r = cl.flush(rng.chance(0.5));
                answered!("FlushHotTier", r);
            }
        }
        if step % 8 == 7 {
            let r = cl.health();
            answered!("Health", r);
            if r.is_err() {
                viol!("health-unanswered", "step {}: Health failed after the requests above: {:?}", step, r.err().map(|e| e.to_string()));
            }
        }
    }
    // search sanity: the server "keeps serving later requests": a valid Search for a live document's own
    // vector finds that document (a breaker opened by earlier invalid requests would return nothing)
    {
        let live: Vec<(u64, Vec<f32>)> = model.iter().filter(|(_, d)| d.vec.iter().all(|x| x.is_finite()) && d.vec.iter().any(|x| *x != 0.0) && d.vec.iter().all(|x| x.abs() < 1e18)).map(|(i, d)| (*i, d.vec.clone())).take(3).collect();
        for (id, v) in live {
            history.push(json!({"rpc":"Search(sanity)","id":id.to_string()}));
            let r = cl.search(SearchRequest { query_embedding: v.clone(), k: 10, ..Default::default() });
            answered!("Search(sanity)", r);
            if let Ok(x) = &r {
                if !x.results.iter().any(|h| h.doc_id == id) {
                    viol!("valid-search-no-longer-served", "after the request history a valid Search(k=10) for the stored vector of live document {} returns {:?} (of {} live documents)", id, x.results.iter().map(|h| h.doc_id).collect::<Vec<_>>(), model.len());
                }
            }
        }
    }
    // concurrent phase: a second connection writes (far-away ids) while this connection sends malformed
    // and valid requests; every one of them must still be answered (a request that wedges the server
    // against a concurrent writer shows as a 60 s deadline = no-answer)
    {
        let stop = std::sync::Arc::new(std::sync::atomic::AtomicBool::new(false));
        let writers: Vec<_> = (0..1u64)
            .filter_map(|wi| {
                srv.tenant_client(who).ok().map(|mut c2| {
                    let stop = stop.clone();
                    let mut wr = Rng::derive(seed, idx as u64, 0xC15_2 + wi);
                    std::thread::spawn(move || {
                        let mut n = 0u64;
                        while !stop.load(std::sync::atomic::Ordering::SeqCst) && n < 3000 {
                            let v = gen_unit_vec(&mut wr, DIM);
                            let _ = c2.insert(3_000_000 + wi * 100 + n % 16, v, HashMap::new(), "");
                            n += 1;
                        }
                        n
                    })
                })
            })
            .collect();
        let shapes = enum_filter_shapes();
        // shapes that contain a NOT without operand (they take the engine's scan fallback) are used for the
        // batch deletes of this phase; the other requests rotate through all shapes
        let not_none: Vec<MetadataFilter> = shapes.iter().filter(|f| format!("{:?}", f).contains("NotFilter { filter: None }")).cloned().collect();
        for w in 0..30usize {
            let f = if w % 3 == 0 && !not_none.is_empty() { not_none[(idx * 5 + w) % not_none.len()].clone() } else { shapes[(idx * 31 + w * 7) % shapes.len()].clone() };
            history.push(json!({"rpc":"concurrent-phase","w":w,"shape":format!("{:?}", f).chars().take(160).collect::<String>()}));
            match w % 3 {
                0 => {
                    let r = cl.batch_delete_filter(f, "");
                    answered!("BatchDelete(filter shape, concurrent writer)", r);
                    if let Ok(x) = &r {
                        if x.deleted_count > 0 {
                            let ids_now: Vec<u64> = model.keys().copied().collect();
                            for i in ids_now {
                                if let Ok(q) = cl.query(i, false, "") {
                                    if !q.found {
                                        model.remove(&i);
                                    }
                                }
                            }
                        }
                    }
                }
                1 => {
                    let r = cl.search(SearchRequest { query_embedding: gen_unit_vec(&mut rng, DIM), k: 3, filter: Some(f), ..Default::default() });
                    answered!("Search(filter shape, concurrent writer)", r);
                }
                _ => {
                    let r = cl.update_metadata(*rng.pick(&ids), tag(&format!("c{}", w)), true, "");
                    answered!("UpdateMetadata(concurrent writer)", r);
                    if let Ok(x) = &r {
                        if x.success && x.existed {
                            // learn: merge of {"tag": ...}
                        }
                    }
                }
            }
        }
        stop.store(true, std::sync::atomic::Ordering::SeqCst);
        for h in writers {
            let _ = h.join();
        }
        // metadata merges above: re-learn the tags of live model documents from the server (content of
        // valid requests is not this phase's subject; the census below still checks ids and vectors)
        let ids_now: Vec<u64> = model.keys().copied().collect();
        for i in ids_now {
            if let Ok(q) = cl.query(i, false, "") {
                if q.found {
                    if let Some(d) = model.get_mut(&i) {
                        d.meta = q.metadata.iter().filter(|(k, _)| !k.starts_with("__")).map(|(k, v)| (k.clone(), v.clone())).collect();
                    }
                }
            }
        }
    }
    // filter-shape sweep: a rotating window of the enumerated small shapes through Search (unary) and
    // BulkSearch (in a stream between two valid requests); every request must be answered
    {
        let shapes = enum_filter_shapes();
        let window = 48usize;
        let start = (idx * window) % shapes.len();
        let q = gen_unit_vec(&mut rng, DIM);
        for w in 0..window {
            let si = (start + w) % shapes.len();
            let f = shapes[si].clone();
            let req = SearchRequest { query_embedding: q.clone(), k: 3, filter: Some(f.clone()), ..Default::default() };
            history.push(json!({"rpc":"Search(shape)","shape_index":si,"shape":format!("{:?}", f).chars().take(200).collect::<String>()}));
            if (w + idx / 16) % 2 == 0 {
                let r = cl.search(req);
                answered!("Search(filter shape)", r);
            } else {
                let good = SearchRequest { query_embedding: q.clone(), k: 2, ..Default::default() };
                let r = cl.bulk_search(vec![good.clone(), req, good]);
                answered!("BulkSearch(filter shape)", r);
                if std::env::var("VERIF_C15_DEBUG").is_ok() {
                    eprintln!("shape {} bulk -> {:?}", si, r.as_ref().map(|v| v.iter().map(|i| i.is_ok()).collect::<Vec<_>>()).map_err(|e| e.to_string()));
                }
                if let Ok(items) = &r {
                    if items.iter().all(|i| i.is_ok()) && items.len() != 3 {
                        viol!("request-unanswered|BulkSearch", "a BulkSearch stream of 3 requests with filter shape #{} in the middle ended without error after {} answers", si, items.len());
                    }
                }
            }
        }
        let r = cl.health();
        answered!("Health", r);
        if r.is_err() {
            viol!("health-unanswered", "Health failed after the filter-shape sweep: {:?}", r.err().map(|e| e.to_string()));
        }
        out.count("filter_shapes_sent", window as u64);
    }
    // oversized stream (10 001 items): must be answered, must not run away
    if rng.chance(0.1) {
        history.push(json!({"rpc":"BulkInsert","items":10_001}));
        let items: Vec<InsertRequest> = (0..10_001u64).map(|i| InsertRequest { doc_id: 2_000_000 + i, embedding: gen_unit_vec(&mut rng, DIM), metadata: HashMap::new(), namespace: String::new() }).collect();
        let r = cl.bulk_insert(items);
        answered!("BulkInsert(10001 items)", r);
        if let Ok(x) = &r {
            if x.total_inserted > 10_000 {
                viol!("oversized-batch-accepted|BulkInsert", "BulkInsert stream of 10 001 items inserted {}", x.total_inserted);
            }
        }
        // remove them again so that the census stays small
        let _ = cl.batch_delete_ids((2_000_000..2_010_000u64).collect(), "");
        let _ = cl.batch_delete_ids(vec![2_010_000], "");
    }
    // census: live, after graceful restart, after SIGKILL restart
    let census_ids: Vec<u64> = model.keys().copied().chain(ids.iter().copied()).collect::<std::collections::BTreeSet<_>>().into_iter().collect();
    for phase in ["live", "after-graceful-restart", "after-sigkill-restart"] {
        if phase != "live" {
            if phase == "after-graceful-restart" {
                let _ = srv.term();
            } else {
                srv.kill9();
            }
            if let Err(e) = srv.start() {
                if !e.contains("exited during start-up") {
                    out.inconclusive(format!("case {}: restart watchdog: {}", idx, e));
                    return;
                }
                viol!(format!("restart-failed|{}", phase), "server does not start {}: {}", phase, e);
            }
            cl = match srv.tenant_client(who) {
                Ok(c) => c,
                Err(e) => {
                    out.inconclusive(e);
                    return;
                }
            };
        }
        for id in &census_ids {
            match cl.query(*id, true, "") {
                Ok(q) => {
                    let exp = model.get(id);
                    let ok = match exp {
                        None => !q.found,
                        Some(d) => {
                            q.found
                                && q.metadata.iter().filter(|(k, _)| !k.starts_with("__")).map(|(k, v)| (k.clone(), v.clone())).collect::<BTreeMap<_, _>>() == d.meta
                                && q.embedding.len() == d.vec.len()
                                && !q.embedding.iter().zip(d.vec.iter()).any(|(a, b)| (a - b).abs() > 1e-5)
                                && q.embedding.iter().all(|x| x.is_finite())
                        }
                    };
                    if !ok {
                        viol!(
                            format!("census-differs-from-model|{}", phase),
                            "{} census: id {} is found={} meta {:?} vec {:?}, model {:?}",
                            phase,
                            id,
                            q.found,
                            q.metadata.iter().map(|(k, v)| (k.clone(), v.chars().take(20).collect::<String>())).collect::<Vec<_>>(),
                            q.embedding,
                            exp.map(|d| (d.vec.clone(), d.meta.iter().map(|(k, v)| (k.clone(), v.chars().take(20).collect::<String>())).collect::<Vec<_>>()))
                        );
                    }
                }
                Err(e) => {
                    std::thread::sleep(std::time::Duration::from_millis(300));
                    if phase == "live" && !srv.alive() && !srv.killed_from_outside() {
                        viol!("server-died|during-history", "the server process died during the request history (census query: {}; process ended with {:?})", e, srv.exit_status());
                    }
                    let alive = srv.alive();
                    let fresh = srv.tenant_client(who).ok().map(|mut c| c.health().is_ok()).unwrap_or(false);
                    out.inconclusive(format!("census query failed (phase {}, case {}, server alive {}, fresh connection healthy {}): {}; last requests {:?}", phase, idx, alive, fresh, e, history.iter().rev().take(3).collect::<Vec<_>>()));
                    return;
                }
            }
        }
    }
    out.eval();
    out.count("rpc_calls", rpcs);
    out.count("boundary_vectors_legitimately_accepted_and_tracked", boundary_accepted);
    out.set_max("slowest_answer_ms", slowest.1);
    if slowest.1 > 5_000 {
        out.note(format!("case {}: slowest answer {} ms for {}", idx, slowest.1, slowest.0));
    }
    out.count("requests_answered_with_a_status", refused);
    out.distinct(&(idx, history.len()));
    out.count(&format!("cases_{}", distance), 1);
    if idx % 5 == 0 {
        out.sample(json!({"case": idx, "requests": history.len(), "tail": history.iter().rev().take(4).collect::<Vec<_>>()}));
    }
}

/// debugging aid: `vh c15-probe --server <bin>` sends one BulkSearch [good, NOT(OR([{}])), good] and prints what comes back
pub fn probe(args: &Args) {
    let bin = args.get("server").expect("--server");
    let rt = new_rt();
    let cfg = SrvCfg { dim: DIM, tenants: vec![TenantSpec { id: "solo".into(), max_vectors: 1000, max_qps: 0, enabled: true, admin: false }], fsync: "data_only", ..Default::default() };
    let mut srv = Srv::new(cfg, bin, rt);
    srv.start().expect("start");
    let mut cl = srv.tenant_client("solo").expect("client");
    let mut rng = Rng::new(1);
    let q = gen_unit_vec(&mut rng, DIM);
    let _ = cl.insert(1, q.clone(), HashMap::new(), "");
    let bad = MetadataFilter {
        filter_type: Some(FilterType::NotFilter(Box::new(NotFilter {
            filter: Some(Box::new(MetadataFilter { filter_type: Some(FilterType::OrFilter(OrFilter { filters: vec![MetadataFilter { filter_type: None }] })) })),
        }))),
    };
    let good = SearchRequest { query_embedding: q.clone(), k: 2, ..Default::default() };
    let breq = SearchRequest { query_embedding: q.clone(), k: 2, filter: Some(bad), ..Default::default() };
    println!("unary: {:?}", cl.search(breq.clone()).map(|r| r.results.len()));
    let r = cl.bulk_search(vec![good.clone(), breq, good.clone()]);
    println!("bulk: {:?}", r.map(|v| v.into_iter().map(|i| i.map(|x| x.results.len()).map_err(|e| format!("{:?}: {}", e.code(), e.message()))).collect::<Vec<_>>()));
    println!("health after: {:?}", cl.health().map(|h| h.status));
    println!("term: {:?}", srv.term());
}
