//! C16 approximate search keeps a recall floor and is deterministic (measurement vs brute force).

use crate::c06::ref_distance;
use crate::model::*;
use crate::util::*;
use kyrodb_engine::config::DistanceMetric;
use kyrodb_engine::persistence::FsyncPolicy;
use kyrodb_engine::HnswBackend;
use serde_json::json;
use std::collections::{BTreeSet, HashMap};

const FLOOR: f64 = 0.80;
const ROUTE_DROP: f64 = 0.10;

fn normalize(v: &mut [f32]) {
    let n: f64 = v.iter().map(|x| (*x as f64) * (*x as f64)).sum::<f64>().sqrt();
    if n > 0.0 {
        for x in v.iter_mut() {
            *x = (*x as f64 / n) as f32;
        }
    }
}

/// dataset families: 0 uniform sphere, 1 gaussian clusters, 2 low-dimensional manifold
fn gen_dataset(rng: &mut Rng, family: usize, dim: usize, n: usize, metric: DistanceMetric) -> Vec<Vec<f32>> {
    let mut out = Vec::with_capacity(n);
    // families 3..5 are Gaussian-cluster variants: few large clusters / tight / loose
    let (n_centers, sigma) = match family {
        3 => (4usize, 0.25f64),
        4 => (16, 0.1),
        5 => (16, 0.5),
        _ => (16, 0.25),
    };
    let family = if family >= 3 { 1 } else { family };
    let centers: Vec<Vec<f64>> = (0..n_centers).map(|_| (0..dim).map(|_| rng.gauss()).collect()).collect();
    let latent = 3usize.min(dim);
    let basis: Vec<Vec<f64>> = (0..latent).map(|_| (0..dim).map(|_| rng.gauss()).collect()).collect();
    for _ in 0..n {
        let mut v: Vec<f32> = match family {
            0 => (0..dim).map(|_| rng.gauss() as f32).collect(),
            1 => {
                let c = &centers[rng.usize_below(centers.len())];
                (0..dim).map(|i| (c[i] + sigma * rng.gauss()) as f32).collect()
            }
            _ => {
                let z: Vec<f64> = (0..latent).map(|_| rng.gauss()).collect();
                (0..dim)
                    .map(|i| {
                        let mut s = 0.0;
                        for l in 0..latent {
                            s += z[l] * basis[l][i] + 0.3 * (z[l] * (l as f64 + 1.0)).sin() * basis[(l + 1) % latent][i];
                        }
                        (s + 0.02 * rng.gauss()) as f32
                    })
                    .collect()
            }
        };
        if normalizes(metric) || family == 0 {
            normalize(&mut v);
        }
        if v.iter().all(|x| *x == 0.0) {
            v[0] = 1.0;
        }
        out.push(v);
    }
    out
}

fn brute_top10(metric: DistanceMetric, q: &[f32], data: &[Vec<f32>]) -> (Vec<usize>, f64) {
    let mut d: Vec<(f64, usize)> = data.iter().enumerate().map(|(i, v)| (ref_distance(metric, q, v), i)).collect();
    d.sort_by(|a, b| a.0.partial_cmp(&b.0).unwrap().then(a.1.cmp(&b.1)));
    let kth = d[9.min(d.len() - 1)].0;
    (d.iter().take(10).map(|x| x.1).collect(), kth)
}

fn build_route(route: usize, metric: DistanceMetric, dim: usize, data: &[Vec<f32>], scratch: &Scratch) -> anyhow::Result<HnswBackend> {
    let n = data.len();
    match route {
        // online inserts
        0 => {
            // every other id is first written with a different vector and then overwritten: the
            // superseded version must not stay searchable
            let b = HnswBackend::new(dim, metric, vec![], vec![], n + n / 2 + 16)?;
            for (i, v) in data.iter().enumerate() {
                if i % 2 == 0 {
                    let mut old = data[(i * 13 + 5) % n].clone();
                    old[0] += 0.02;
                    if normalizes(metric) {
                        normalize(&mut old);
                    }
                    b.insert(i as u64, old, HashMap::new())?;
                }
                b.insert(i as u64, v.clone(), HashMap::new())?;
            }
            Ok(b)
        }
        // bulk build
        1 => HnswBackend::new(dim, metric, data.to_vec(), vec![HashMap::new(); n], n + 16),
        // heavy delete + tombstone compaction: junk documents interleaved, deleted, then the
        // index fills up and the next insert compacts the tombstones away
        2 => {
            let extra = n / 2;
            let b = HnswBackend::new(dim, metric, vec![], vec![], n - 1 + extra)?;
            let mut junk = 0usize;
            for (i, v) in data.iter().enumerate().take(n - 1) {
                b.insert(i as u64, v.clone(), HashMap::new())?;
                if junk < extra && i % 2 == 0 {
                    let mut j = v.clone();
                    j.reverse();
                    if j.iter().all(|x| *x == 0.0) {
                        j[0] = 1.0;
                    }
                    b.insert((1_000_000 + junk) as u64, j, HashMap::new())?;
                    junk += 1;
                }
            }
            while junk < extra {
                b.insert((1_000_000 + junk) as u64, data[junk % n].clone(), HashMap::new())?;
                junk += 1;
            }
            for j in 0..extra {
                b.delete((1_000_000 + j) as u64)?;
            }
            // index is full (n-1+extra slots, extra tombstones): this insert triggers compaction
            b.insert((n - 1) as u64, data[n - 1].clone(), HashMap::new())?;
            Ok(b)
        }
        // heavy delete WITHOUT compaction: half as many junk documents again, interleaved and then
        // deleted; capacity is roomy, so the tombstones are still in the graph when searching
        4 => {
            let extra = n / 2;
            let b = HnswBackend::new(dim, metric, vec![], vec![], n + extra + 16)?;
            let mut junk = 0usize;
            for (i, v) in data.iter().enumerate() {
                b.insert(i as u64, v.clone(), HashMap::new())?;
                if junk < extra && i % 2 == 0 {
                    // junk close to real data so that it competes for the candidate list
                    let mut j = data[(i * 7 + 3) % n].clone();
                    j[0] += 0.01;
                    if normalizes(metric) {
                        normalize(&mut j);
                    }
                    b.insert((1_000_000 + junk) as u64, j, HashMap::new())?;
                    junk += 1;
                }
            }
            for j in 0..junk {
                b.delete((1_000_000 + j) as u64)?;
            }
            Ok(b)
        }
        // recovery rebuild
        _ => {
            let dir = scratch.sub(&format!("route3-{}", n));
            let cfg = EngCfg {
                dim,
                metric,
                capacity: n + n / 4 + 16,
                snapshot_interval: n / 3 + 1,
                max_wal: 1 << 30,
                fsync: FsyncPolicy::Never,
                tiered: false,
                hot_soft: 1,
                hot_hard: 1,
            };
            {
                // sparse external ids (2i+1) with junk on even ids deleted before the restart: the recovered
                // id space is neither dense nor equal to the internal slot numbering
                let b = HnswBackend::with_persistence(dim, metric, vec![], vec![], n + n / 4 + 16, &dir, FsyncPolicy::Never, cfg.snapshot_interval, 1 << 30)?;
                let mut junk = Vec::new();
                for (i, v) in data.iter().enumerate() {
                    b.insert(2 * i as u64 + 1, v.clone(), HashMap::new())?;
                    if i % 4 == 0 {
                        let mut j = v.clone();
                        j.reverse();
                        if j.iter().all(|x| *x == 0.0) {
                            j[0] = 1.0;
                        }
                        b.insert(2 * i as u64, j, HashMap::new())?;
                        junk.push(2 * i as u64);
                    }
                }
                for j in junk {
                    b.delete(j)?;
                }
            }
            recover_backend(&cfg, &dir)
        }
    }
}

fn route_name(r: usize) -> &'static str {
    ["online", "bulk", "delete+compaction", "recovery", "delete-with-tombstones"][r]
}

pub fn run(args: &Args) -> Out {
    let mut out = Out::new("C16", "recall-determinism");
    quiet_panics();
    // grid: family x metric x dim x size; quick = a seeded slice of small sizes
    let dims = [8usize, 16, 32, 64];
    let sizes_q = [500usize, 1000];
    let sizes_t = [500usize, 1000, 2000, 5000];
    let mut grid = Vec::new();
    for family in 0..(if args.thorough { 6 } else { 3 }) {
        for m in 0..3 {
            for (di, dim) in dims.iter().enumerate() {
                let sizes: &[usize] = if args.thorough { &sizes_t } else { &sizes_q };
                for (si, n) in sizes.iter().enumerate() {
                    grid.push((family, metric_from(m), *dim, *n, di + si));
                }
            }
        }
    }
    let mut rng0 = Rng::derive(args.seed, 0, 0xC16);
    rng0.shuffle(&mut grid);
    if !args.thorough {
        // the quick slice also carries the largest clustered collections (clusters much larger
        // than the layer-0 degree are where neighbour-selection regressions show)
        let mut big = Vec::new();
        let (cos, l2, ip) = (metric_from(0), metric_from(1), metric_from(2));
        for (fam, m, dim) in [(4usize, l2, 16usize), (4, l2, 32), (4, ip, 32), (4, ip, 64), (4, cos, 64), (3, ip, 64), (3, ip, 32), (1, l2, 32), (1, l2, 16), (1, cos, 64)] {
            big.push((fam, m, dim, 5000usize, 0usize));
        }
        big.extend(grid.drain(..));
        grid = big;
    }
    if std::env::var("C16_EXP").is_ok() {
        grid.clear();
        for fam in [1usize, 3, 4, 5] {
            for (i, dim) in [16usize, 32, 64].iter().enumerate() {
                grid.push((fam, metric_from(i), *dim, 5000usize, 0usize));
                grid.push((fam, metric_from(i + 1), *dim, 5000usize, 0usize));
            }
        }
    }
    let take = if args.thorough { grid.len() } else { 64 };
    let reps = if args.thorough { 2 } else { 1 };
    let mut case_no = 0usize;
    for rep in 0..reps {
        for (gi, (family, metric, dim, n, _)) in grid.iter().take(take).enumerate() {
            case_no += 1;
            if !args.mine(case_no) {
                continue;
            }
            let mut rng = Rng::derive(args.seed, (gi * 7 + rep) as u64, 0xD16);
            // data and held-out queries come from ONE draw of the family (same cluster centres / same
            // manifold basis): the queries are in-distribution but not members of the collection
            let mut all = gen_dataset(&mut rng, *family, *dim, *n + 400, *metric);
            let fresh: Vec<Vec<f32>> = all.split_off(*n);
            let data = all;
            // two groups of 200 queries: even = perturbed data points, odd = held-out fresh draws; each
            // group is a >= 200-query sample of the family and is judged on its own
            let nq = 400;
            // queries: perturbed data points and fresh draws from the same family
            let queries: Vec<Vec<f32>> = (0..nq)
                .map(|i| {
                    if i % 2 == 0 {
                        let mut q = data[rng.usize_below(*n)].clone();
                        for x in q.iter_mut() {
                            *x += (0.05 * rng.gauss()) as f32;
                        }
                        if normalizes(*metric) {
                            normalize(&mut q);
                        }
                        q
                    } else {
                        fresh[i].clone()
                    }
                })
                .collect();
            let truth: Vec<(Vec<usize>, f64)> = queries.iter().map(|q| brute_top10(*metric, q, &data)).collect();
            let scratch = Scratch::new("c16");
            let mut recalls = Vec::new();
            let fam_name = ["uniform_sphere", "gaussian_clusters", "low_dim_manifold", "gaussian_clusters_4_large", "gaussian_clusters_tight", "gaussian_clusters_loose"][*family];
            let desc = json!({"family": fam_name, "metric": metric_name(*metric), "dim": dim, "n": n, "rep": rep, "seed": args.seed});
            for route in 0..5 {
                let b = match build_route(route, *metric, *dim, &data, &scratch) {
                    Ok(b) => b,
                    Err(e) => {
                        out.violation("build-failed", format!("route {} failed to build: {:#}", route, e), desc.clone());
                        continue;
                    }
                };
                if b.len() != *n {
                    out.violation("route-live-set", format!("route {} holds {} documents, expected {}", route, b.len(), n), desc.clone());
                    continue;
                }
                let mut hit = 0usize;
                let mut hit_group = [0usize; 2];
                for (qi, q) in queries.iter().enumerate() {
                    let r1 = match b.knn_search(q, 10) {
                        Ok(r) => r,
                        Err(e) => {
                            out.violation("search-error", format!("route {}: {:#}", route, e), desc.clone());
                            break;
                        }
                    };
                    // recall with tie tolerance: a returned doc counts if it is in the true top-10 or exactly ties the 10th distance
                    let t: BTreeSet<usize> = truth[qi].0.iter().copied().collect();
                    for r in &r1 {
                        // route 3 uses external id 2i+1 for data[i]; an even id there is deleted junk (a miss)
                        let id = if route == 3 {
                            if r.doc_id % 2 == 1 { (r.doc_id as usize - 1) / 2 } else { usize::MAX }
                        } else {
                            r.doc_id as usize
                        };
                        if t.contains(&id) || (id < data.len() && ref_distance(*metric, q, &data[id]) <= truth[qi].1) {
                            hit += 1;
                            hit_group[qi % 2] += 1;
                        }
                    }
                    // determinism: repeat twice more on the unchanged collection
                    if qi % 4 == 0 {
                        for _ in 0..2 {
                            let r2 = b.knn_search(q, 10).unwrap_or_default();
                            let d1: Vec<u32> = r1.iter().map(|r| r.distance.to_bits()).collect();
                            let d2: Vec<u32> = r2.iter().map(|r| r.distance.to_bits()).collect();
                            let mut bad = d1 != d2;
                            if !bad {
                                for (a, c) in r1.iter().zip(r2.iter()) {
                                    if a.doc_id != c.doc_id {
                                        // allowed only among exactly tied distances
                                        let tied = r1.iter().filter(|x| x.distance == a.distance).count() > 1;
                                        if !tied {
                                            bad = true;
                                        }
                                    }
                                }
                            }
                            out.count("determinism_repeats", 1);
                            if bad {
                                out.violation("nondeterministic-search", format!("route {}: repeated search differs: {:?} vs {:?}", route, r1, r2), desc.clone());
                                break;
                            }
                        }
                    }
                }
                let _ = hit;
                // the weaker of the two 200-query groups decides
                let recall = hit_group.iter().map(|h| *h as f64 / (10 * (nq / 2)) as f64).fold(1.0, f64::min);
                recalls.push(recall);
                out.count("queries", nq as u64);
                // (route 4, tombstones present, is not one of the four routes the property names: it is
                // judged on the floor only, not on the route-drop clause; measured clean >= 0.98)
                if recall < FLOOR {
                    out.violation(
                        format!("recall-below-floor|route{}", route),
                        format!("mean recall@10 {:.3} < {:.2} on route {} ({})", recall, FLOOR, route_name(route), desc),
                        desc.clone(),
                    );
                }
            }
            if recalls.len() == 5 {
                // the route-drop clause names four routes; the tombstones-present route (4) is judged
                // on the floor only
                let best = recalls.iter().take(4).cloned().fold(0.0, f64::max);
                for (route, r) in recalls.iter().enumerate().take(4) {
                    if best - r > ROUTE_DROP {
                        out.violation(
                            format!("route-recall-drop|route{}", route),
                            format!("recall {:.3} on route {} is more than {:.2} below the best route ({:.3}); all: {:?}", r, route, ROUTE_DROP, best, recalls),
                            desc.clone(),
                        );
                    }
                }
                let minr = recalls.iter().cloned().fold(1.0, f64::min);
                out.set_max("max_min_recall_x1000_inverse", ((1.0 - minr) * 1000.0) as u64);
                out.set_max("max_tombstone_route_recall_x1000_inverse", ((1.0 - recalls[4]) * 1000.0) as u64);
                let min4 = recalls.iter().take(4).cloned().fold(1.0, f64::min);
                out.set_max("max_named_routes_recall_x1000_inverse", ((1.0 - min4) * 1000.0) as u64);
                if min4 < 0.90 || recalls[4] < 0.88 {
                    out.note(format!("low-recall case (not a verdict): {} routes {:?}", desc, recalls.iter().map(|r| (r * 1000.0).round() / 1000.0).collect::<Vec<_>>()));
                }
                if *n <= 2000 {
                    out.set_max("max_tombstone_route_n_le_2000_recall_x1000_inverse", ((1.0 - recalls[4]) * 1000.0) as u64);
                }
            }
            out.eval();
            out.distinct(&desc.to_string());
            out.sample(json!({"dataset": desc, "recall_by_route": recalls}));
        }
    }
    out
}
