//! C17 unsafe index and SIMD code stays in bounds.
//!
//! This module is only the WORKLOAD; the oracle is the tool the same workload runs under
//! (lib/sanwrap.py): Miri, AddressSanitizer, std's `ub_checks` (debug-assertion build) plus guard
//! pages, valgrind memcheck. A cheap value oracle rides along (kernel results vs an f64 reference,
//! search results only name inserted ids) because an out-of-bounds read that no tool traps still
//! shows as garbage.
//!
//! Every case prints `CASE <leg> <idx>` on stderr first, so that the wrapper can name the case a
//! tool report / signal belongs to.

use crate::model::gen_unit_vec;
use crate::util::*;
use kyrodb_engine::config::DistanceMetric;
use kyrodb_engine::{HnswBackend, HnswVectorIndex};
use serde_json::json;
use std::collections::{BTreeSet, HashMap};
use std::sync::atomic::{AtomicBool, AtomicUsize, Ordering};

/// workload scale; Miri interprets ~10^4 x slower, valgrind ~30 x
#[derive(Clone, Copy)]
struct Scale {
    max_nodes: usize,
    max_cap: usize,
    max_k: usize,
    ops: usize,
    readers: usize,
    offsets: usize,
    big_batch: bool,
    /// under Miri: allow the occasional 101-member batch (parallel insertion path)
    miri_big_batches: bool,
}

fn scale(args: &Args) -> Scale {
    let mut s = scale_of(args);
    if !args.thorough {
        s.max_nodes = s.max_nodes.min(500);
        if args.get("scale") == Some("miri") {
            // the quick tier under Miri stays within minutes: no 101-member (rayon) batches, k <= 1000
            s.max_k = 1000;
            s.miri_big_batches = false;
        }
    }
    s
}

fn scale_of(args: &Args) -> Scale {
    match args.get("scale").unwrap_or("native") {
        "miri" => Scale { max_nodes: 24, max_cap: 130, max_k: 10_000, ops: 14, readers: 2, offsets: 3, big_batch: false, miri_big_batches: true },
        "asan" => Scale { max_nodes: 500, max_cap: 4096, max_k: 10_000, ops: 60, readers: 4, offsets: 16, big_batch: true, miri_big_batches: true },
        "valgrind" => Scale { max_nodes: 300, max_cap: 4096, max_k: 10_000, ops: 40, readers: 3, offsets: 16, big_batch: true, miri_big_batches: true },
        _ => Scale { max_nodes: 1500, max_cap: 4096, max_k: 10_000, ops: 120, readers: 4, offsets: 16, big_batch: true, miri_big_batches: true },
    }
}

const DIMS: [usize; 26] = [1, 2, 3, 4, 5, 7, 8, 9, 15, 16, 17, 23, 24, 25, 31, 32, 33, 47, 63, 64, 65, 96, 127, 128, 129, 130];

pub fn run(args: &Args) -> Out {
    let leg = args.get("leg").unwrap_or("index").to_string();
    let mut out = Out::new("C17", &leg);
    let sc = scale(args);
    out.note(format!("kernel families usable in this build: {:?}; forced: {:?}", kyrodb_engine::verif_hooks::simd_available(), std::env::var("KYRODB_VERIF_FORCE_KERNEL").ok()));
    let only: Option<usize> = args.get("case").and_then(|s| s.parse().ok());
    match leg.as_str() {
        "kernels" => kernels(args, sc, &mut out),
        _ => {
            let n = args.get_u64("cases", 64) as usize;
            for idx in 0..n {
                if let Some(o) = only {
                    if o != idx {
                        continue;
                    }
                } else if !args.mine(idx) {
                    continue;
                }
                eprintln!("CASE {} {}", leg, idx);
                match leg.as_str() {
                    "index" => index_case(args.seed, idx, sc, &mut out),
                    _ => backend_case(args.seed, idx, sc, &mut out),
                }
            }
        }
    }
    out
}

// ------------------------------------------------------------------------------------------
// kernels: every family x every length 0..=130 x alignment offsets, slice ending exactly at the
// end of its allocation (heap: redzone / Miri allocation bound; guard page natively)
// ------------------------------------------------------------------------------------------

/// a slice of `len` f32 that ends exactly at a PROT_NONE page (native builds only)
struct Guarded {
    base: *mut u8,
    total: usize,
    ptr: *mut f32,
    len: usize,
}

impl Guarded {
    #[cfg(not(miri))]
    fn new(len: usize, front_pad: bool) -> Option<Guarded> {
        let page = 4096usize;
        let bytes = len * 4;
        let data_pages = bytes.div_ceil(page).max(1);
        let total = (data_pages + 2) * page;
        unsafe {
            let base = libc::mmap(std::ptr::null_mut(), total, libc::PROT_READ | libc::PROT_WRITE, libc::MAP_PRIVATE | libc::MAP_ANONYMOUS, -1, 0);
            if base == libc::MAP_FAILED {
                return None;
            }
            let base = base as *mut u8;
            // [guard][data pages][guard]
            libc::mprotect(base as *mut _, page, libc::PROT_NONE);
            libc::mprotect(base.add((data_pages + 1) * page) as *mut _, page, libc::PROT_NONE);
            let ptr = if front_pad {
                // starts exactly at the first data byte (under-reads trap)
                base.add(page) as *mut f32
            } else {
                // ends exactly at the trailing guard (over-reads trap)
                base.add((data_pages + 1) * page - bytes) as *mut f32
            };
            Some(Guarded { base, total, ptr, len })
        }
    }
    #[cfg(miri)]
    fn new(_len: usize, _front_pad: bool) -> Option<Guarded> {
        None
    }
    fn fill(&mut self, v: &[f32]) {
        unsafe { std::ptr::copy_nonoverlapping(v.as_ptr(), self.ptr, self.len) }
    }
    fn slice(&self) -> &[f32] {
        unsafe { std::slice::from_raw_parts(self.ptr, self.len) }
    }
}

impl Drop for Guarded {
    fn drop(&mut self) {
        #[cfg(not(miri))]
        unsafe {
            libc::munmap(self.base as *mut _, self.total);
        }
        let _ = (self.base, self.total);
    }
}

fn kernels(args: &Args, sc: Scale, out: &mut Out) {
    let fams = kyrodb_engine::verif_hooks::simd_available();
    let mut rng = Rng::derive(args.seed, 17, 0xC17);
    let mut idx = 0usize;
    let mut calls = 0u64;
    let mut guard_calls = 0u64;
    for fam in fams.iter() {
        let Some((dot, sumsq, l2, dan)) = kyrodb_engine::verif_hooks::simd_kernel_table(fam) else { continue };
        for len in 0..=130usize {
            idx += 1;
            if !args.mine(idx) {
                continue;
            }
            eprintln!("CASE kernels {}:{}", fam, len);
            for off in 0..sc.offsets {
                // exact-capacity heap allocations: the slice [off..] ends at the allocation's end
                let mut a: Vec<f32> = Vec::with_capacity(len + off);
                let mut b: Vec<f32> = Vec::with_capacity(len + off);
                for _ in 0..len + off {
                    a.push(rng.sym() as f32);
                    b.push(rng.sym() as f32);
                }
                let a = a.into_boxed_slice();
                let b = b.into_boxed_slice();
                let (sa, sb) = (&a[off..], &b[off..]);
                let r_dot: f64 = sa.iter().zip(sb).map(|(x, y)| *x as f64 * *y as f64).sum();
                let r_ss: f64 = sa.iter().map(|x| *x as f64 * *x as f64).sum();
                let r_l2: f64 = sa.iter().zip(sb).map(|(x, y)| (*x as f64 - *y as f64).powi(2)).sum();
                let r_sb: f64 = sb.iter().map(|x| *x as f64 * *x as f64).sum();
                let g_dot = dot(sa, sb) as f64;
                let g_ss = sumsq(sa) as f64;
                let g_l2 = l2(sa, sb) as f64;
                let (d2, na, nb) = dan(sa, sb);
                calls += 4;
                let tol = |r: f64| 1e-3 + 1e-4 * r.abs() + 1e-5 * len as f64;
                for (name, got, want) in [("dot", g_dot, r_dot), ("sum_squares", g_ss, r_ss), ("l2_distance_sq", g_l2, r_l2), ("dot_and_norms.dot", d2 as f64, r_dot), ("dot_and_norms.a", na as f64, r_ss), ("dot_and_norms.b", nb as f64, r_sb)] {
                    if !((got - want).abs() <= tol(want)) {
                        out.violation(
                            format!("kernel-value|{}|{}", fam, name),
                            format!("{} kernel {} on len {} offset {} returned {} but the f64 reference is {} (reads the wrong elements?)", fam, name, len, off, got, want),
                            json!({"check":"C17","leg":"kernels","family":fam,"len":len,"offset":off}),
                        );
                        return;
                    }
                }
                // guard-page variant (native): the end / start of the slice borders an unmapped page
                if off < 2 {
                    if let (Some(mut ga), Some(mut gb)) = (Guarded::new(len, off == 1), Guarded::new(len, off == 1)) {
                        ga.fill(sa);
                        gb.fill(sb);
                        let x = dot(ga.slice(), gb.slice()) + sumsq(ga.slice()) + l2(ga.slice(), gb.slice()) + dan(ga.slice(), gb.slice()).0;
                        std::hint::black_box(x);
                        guard_calls += 4;
                    }
                }
            }
            out.eval();
            out.distinct(&(fam, len));
        }
    }
    out.count("kernel_calls_on_allocation_end_slices", calls);
    out.count("kernel_calls_on_guard_page_slices", guard_calls);
    out.sample(json!({"leg":"kernels","families":fams,"lengths":"0..=130","offsets":sc.offsets}));
}

// ------------------------------------------------------------------------------------------
// index: HnswVectorIndex sequences
// ------------------------------------------------------------------------------------------

fn gen_v(rng: &mut Rng, dim: usize, metric: DistanceMetric, raw: bool) -> Vec<f32> {
    if raw || matches!(metric, DistanceMetric::Euclidean) {
        match rng.below(8) {
            0 => vec![0.0; dim],
            1 => (0..dim).map(|_| (rng.sym() * 1e18) as f32).collect(),
            _ => (0..dim).map(|_| (rng.sym() * 4.0) as f32).collect(),
        }
    } else {
        gen_unit_vec(rng, dim)
    }
}

fn metric_of(rng: &mut Rng) -> DistanceMetric {
    *rng.pick(&[DistanceMetric::Cosine, DistanceMetric::Euclidean, DistanceMetric::InnerProduct])
}

fn index_case(seed: u64, idx: usize, sc: Scale, out: &mut Out) {
    let mut rng = Rng::derive(seed, idx as u64, 0x17_1D);
    let dim = if rng.chance(0.7) { *rng.pick(&DIMS) } else { rng.range(1, 130) as usize };
    let m = if rng.chance(0.6) { *rng.pick(&[4usize, 5, 8, 16, 32, 64]) } else { rng.range(4, 64) as usize };
    let target_nodes = rng.range(1, sc.max_nodes as u64) as usize;
    let cap = match rng.below(5) {
        0 => *rng.pick(&[1usize, 2, 3]),
        1 => target_nodes,
        2 => target_nodes + 1,
        3 => sc.max_cap,
        _ => rng.range(1, sc.max_cap as u64) as usize,
    };
    let efc = *rng.pick(&[1usize, 2, 10, 50, 200, 400]);
    let metric = metric_of(&mut rng);
    let raw = rng.chance(0.25);
    let desc = json!({"check":"C17","leg":"index","seed":seed,"case":idx,"dim":dim,"m":m,"cap":cap,"efc":efc,"metric":format!("{:?}",metric),"raw":raw});
    if std::env::var("VERIF_C17_DESC").is_ok() {
        eprintln!("DESC {}", desc);
    }
    let mut index = match HnswVectorIndex::new_with_params(dim, cap, metric, m, efc, raw) {
        Ok(i) => i,
        Err(e) => {
            out.note(format!("index refused: {}", e));
            return;
        }
    };
    // small pool => duplicate vectors
    let pool_n = *rng.pick(&[1usize, 3, 16, 4096]);
    let pool: Vec<Vec<f32>> = (0..pool_n.min(64)).map(|_| gen_v(&mut rng, dim, metric, raw)).collect();
    let pick_vec = |rng: &mut Rng| -> Vec<f32> {
        if pool_n <= 64 {
            pool[rng.usize_below(pool.len())].clone()
        } else {
            gen_v(rng, dim, metric, raw)
        }
    };
    let mut inserted: BTreeSet<u64> = BTreeSet::new();
    let mut searches = 0u64;
    let mut cancelled_searches = 0u64;
    let mut inserts = 0u64;
    let t_case = std::time::Instant::now();
    for _step in 0..sc.ops {
        // workload bound, not a verdict: an interpreted case stops growing after two minutes
        if cfg!(miri) && t_case.elapsed() > std::time::Duration::from_secs(120) {
            break;
        }
        match rng.below(10) {
            0..=3 => {
                // burst of single inserts, duplicate / extreme ids
                // grow towards target_nodes; past it only single attempts (capacity-full error path)
                let burst = (rng.range(1, (target_nodes as u64 / 4).max(1)) as usize).min(target_nodes.saturating_sub(index.len()).max(1));
                for _ in 0..burst {
                    let id = match rng.below(8) {
                        0 => 0,
                        1 => u64::MAX,
                        2 => inserted.iter().next().copied().unwrap_or(7),
                        _ => rng.below(1 << 20),
                    };
                    let mut v = pick_vec(&mut rng);
                    let wrong = rng.chance(0.05);
                    if wrong {
                        if rng.chance(0.5) {
                            v.push(0.25);
                        } else {
                            v.pop();
                        }
                    }
                    let r = index.add_vector(id, &v);
                    if wrong && r.is_ok() {
                        out.violation("index-wrong-dimension-vector-accepted", format!("a vector of {} components was accepted by an index of dimension {}", v.len(), dim), desc.clone());
                        return;
                    }
                    if r.is_ok() {
                        inserted.insert(id);
                        inserts += 1;
                    }
                }
                if rng.chance(0.5) {
                    index.complete_sequential_inserts();
                }
            }
            4..=5 => {
                // batch insert: below and above the parallel threshold (100), to capacity and beyond
                let room = index.capacity().saturating_sub(index.len());
                let b = match rng.below(6) {
                    0 => 0,
                    1 => 1,
                    2 => 99,
                    3 => 100,
                    4 => room + 1,
                    _ => rng.range(1, 160) as usize,
                };
                let left = target_nodes.saturating_sub(index.len()).max(1);
                let b = if b <= room { b.min(left) } else if b > 400 { left.min(101) } else { b };
                let b = if sc.big_batch { b.min(400) } else { b.min(if sc.miri_big_batches && rng.chance(0.02) { 101 } else { 12 }) };
                let mut vecs: Vec<Vec<f32>> = (0..b).map(|_| pick_vec(&mut rng)).collect();
                // a batch with one wrong-dimension member (first, middle or last; shorter or longer) must be
                // refused as a whole before anything is stored
                let wrong_batch = b > 0 && rng.chance(0.12);
                if wrong_batch {
                    let at = *rng.pick(&[0usize, b / 2, b - 1]);
                    match rng.below(3) {
                        0 => vecs[at].truncate(dim.saturating_sub(1).max(if dim > 1 { 1 } else { 0 })),
                        1 => vecs[at].truncate((dim / 4).max(0)),
                        _ => vecs[at].extend(std::iter::repeat(0.25).take(3)),
                    }
                    if vecs[at].len() == dim {
                        vecs[at].push(0.5);
                    }
                }
                let ids: Vec<usize> = (0..b).map(|_| rng.below(1 << 20) as usize).collect();
                let data: Vec<(&[f32], usize)> = vecs.iter().zip(ids.iter()).map(|(v, i)| (v.as_slice(), *i)).collect();
                let before = index.len();
                let r = index.parallel_insert_batch(&data);
                if wrong_batch && (r.is_ok() || index.len() != before) && b <= room {
                    out.violation("index-wrong-dimension-vector-accepted", format!("a batch of {} vectors with a wrong-dimension member was {} by an index of dimension {} (nodes {} -> {})", b, if r.is_ok() { "accepted" } else { "partly stored" }, dim, before, index.len()), desc.clone());
                    return;
                }
                if r.is_ok() {
                    for i in &ids {
                        inserted.insert(*i as u64);
                    }
                    inserts += b as u64;
                }
            }
            _ => {
                let n = index.len();
                let k = match rng.below(8) {
                    0 => 1,
                    1 => n.max(1),
                    2 => n + 1,
                    3 => 1000,
                    4 => sc.max_k,
                    5 => 10_001,
                    _ => rng.range(1, 50) as usize,
                };
                let ef = match rng.below(6) {
                    0 => None,
                    1 => Some(1),
                    2 => Some(k),
                    3 => Some(10_000),
                    4 => Some(usize::MAX),
                    _ => Some(rng.range(1, 600) as usize),
                };
                let mut q = pick_vec(&mut rng);
                // wrong-dimension queries (longer / much longer / shorter / empty) must be refused
                // before any kernel sees them
                let wrong_dim = rng.chance(0.15);
                if wrong_dim {
                    match rng.below(4) {
                        0 => q.push(0.5),
                        1 => q = q.iter().cycle().take(dim * 4 + 3).copied().collect(),
                        2 => {
                            q.pop();
                        }
                        _ => q.clear(),
                    }
                }
                let flag = AtomicBool::new(false);
                let mode = rng.below(4);
                let res = match mode {
                    0 => index.knn_search_with_ef_cancel(&q, k, ef, None),
                    1 => {
                        flag.store(true, Ordering::SeqCst);
                        cancelled_searches += 1;
                        index.knn_search_with_ef_cancel(&q, k, ef, Some(&flag))
                    }
                    _ => {
                        // readers share the index; one thread flips the cancellation flag after a seeded delay
                        let spins = rng.below(2000) as usize;
                        let idx_ref = &index;
                        let done = AtomicUsize::new(0);
                        let readers = sc.readers;
                        cancelled_searches += 1;
                        std::thread::scope(|s| {
                            let hs: Vec<_> = (0..readers)
                                .map(|_| {
                                    s.spawn(|| {
                                        let r = idx_ref.knn_search_with_ef_cancel(&q, k, ef, Some(&flag));
                                        done.fetch_add(1, Ordering::SeqCst);
                                        r
                                    })
                                })
                                .collect();
                            s.spawn(|| {
                                for _ in 0..spins {
                                    std::hint::spin_loop();
                                }
                                flag.store(true, Ordering::SeqCst);
                            });
                            let mut last = None;
                            for h in hs {
                                last = Some(h.join().expect("reader panicked"));
                            }
                            last.unwrap()
                        })
                    }
                };
                searches += 1;
                if wrong_dim && res.is_ok() && index.len() > 0 {
                    out.violation("index-wrong-dimension-query-served", format!("a query of {} components was served by an index of dimension {}", q.len(), dim), desc.clone());
                    return;
                }
                if let Ok(rs) = res {
                    if rs.len() > k {
                        out.violation("index-more-than-k", format!("{} results for k {}", rs.len(), k), desc.clone());
                        return;
                    }
                    for r in &rs {
                        if !inserted.contains(&r.doc_id) {
                            out.violation("index-returned-id-never-inserted", format!("search returned id {} which was never inserted (garbage read?) in {:?}", r.doc_id, desc), desc.clone());
                            return;
                        }
                    }
                }
            }
        }
    }
    out.eval();
    out.distinct(&(dim, m, cap.min(64), efc, index.len().min(64)));
    out.count("index_inserts", inserts);
    out.count("index_searches", searches);
    out.count("index_searches_with_cancellation", cancelled_searches);
    out.set_max("max_index_nodes", index.len() as u64);
    if idx % 16 == 0 {
        out.sample(json!({"case": desc, "nodes": index.len(), "searches": searches}));
    }
}

// ------------------------------------------------------------------------------------------
// backend: HnswBackend (no persistence) with one writer and concurrent readers
// ------------------------------------------------------------------------------------------

fn backend_case(seed: u64, idx: usize, sc: Scale, out: &mut Out) {
    let mut rng = Rng::derive(seed, idx as u64, 0x17_BE);
    let dim = if rng.chance(0.7) { *rng.pick(&DIMS) } else { rng.range(1, 130) as usize };
    let m = *rng.pick(&[4usize, 6, 16, 48, 64]);
    let efc = *rng.pick(&[2usize, 20, 200]);
    let metric = metric_of(&mut rng);
    let n0 = if sc.big_batch { *rng.pick(&[0usize, 1, 50, 99, 100, 101, 260]) } else { *rng.pick(&[0usize, 1, 6, 12]) };
    let extra = rng.range(1, (sc.max_nodes / 3).max(2) as u64) as usize;
    let cap = n0 + if rng.chance(0.3) { extra / 2 + 1 } else { extra + 8 };
    let desc = json!({"check":"C17","leg":"backend","seed":seed,"case":idx,"dim":dim,"m":m,"cap":cap,"efc":efc,"n0":n0,"metric":format!("{:?}",metric)});
    let init: Vec<Vec<f32>> = (0..n0).map(|_| gen_v(&mut rng, dim, metric, false)).collect();
    let backend = match HnswBackend::new_with_hnsw_params(dim, metric, init, vec![HashMap::new(); n0], cap, m, efc, false) {
        Ok(b) => b,
        Err(e) => {
            out.note(format!("backend refused: {}", e));
            return;
        }
    };
    let writes: Vec<(u8, u64, Vec<f32>)> = (0..extra + 6)
        .map(|_| {
            let kind = rng.below(10) as u8;
            (kind, rng.below((n0 + extra) as u64 + 2), gen_v(&mut rng, dim, metric, false))
        })
        .collect();
    let queries: Vec<(Vec<f32>, usize, Option<usize>)> = (0..sc.ops)
        .map(|_| {
            let k = *rng.pick(&[1usize, 3, 10, 1000, sc.max_k]);
            let ef = *rng.pick(&[None, Some(1usize), Some(64), Some(10_000)]);
            (gen_v(&mut rng, dim, metric, false), k, ef)
        })
        .collect();
    let stop = AtomicBool::new(false);
    let searches = AtomicUsize::new(0);
    let bad: parking_lot::Mutex<Option<String>> = parking_lot::Mutex::new(None);
    let max_id = (n0 + extra) as u64 + 2;
    std::thread::scope(|s| {
        for r in 0..sc.readers {
            let (backend, queries, stop, searches, bad) = (&backend, &queries, &stop, &searches, &bad);
            s.spawn(move || {
                let mut i = r;
                let flag = AtomicBool::new(false);
                while !stop.load(Ordering::SeqCst) || i < queries.len() {
                    let (q, k, ef) = &queries[i % queries.len()];
                    flag.store(i % 5 == 0, Ordering::SeqCst);
                    let res = if i % 3 == 0 { backend.knn_search_with_ef_cancel(q, *k, *ef, Some(&flag)) } else { backend.knn_search_with_ef(q, *k, *ef) };
                    if let Ok(rs) = res {
                        for x in rs {
                            if x.doc_id > max_id {
                                *bad.lock() = Some(format!("search returned id {} beyond every inserted id (max {})", x.doc_id, max_id));
                            }
                        }
                    }
                    let _ = backend.fetch_document((i as u64) % max_id);
                    searches.fetch_add(1, Ordering::SeqCst);
                    i += 1;
                    if i > queries.len() * 4 {
                        break;
                    }
                }
            });
        }
        for (kind, id, v) in &writes {
            match kind {
                0..=6 => {
                    let _ = backend.insert(*id, v.clone(), HashMap::new());
                }
                7..=8 => {
                    let _ = backend.delete(*id);
                }
                _ => {
                    let _ = backend.batch_delete(&[*id, *id + 1]);
                }
            }
        }
        stop.store(true, Ordering::SeqCst);
    });
    if let Some(b) = bad.lock().take() {
        out.violation("backend-returned-id-never-inserted", b, desc.clone());
        return;
    }
    out.eval();
    out.distinct(&(dim, m, cap.min(64), n0));
    out.count("backend_writes_with_concurrent_readers", writes.len() as u64);
    out.count("backend_concurrent_searches", searches.load(Ordering::SeqCst) as u64);
    if idx % 16 == 0 {
        out.sample(json!({"case": desc, "concurrent_searches": searches.load(Ordering::SeqCst)}));
    }
}
