//! C18 unsafe durability and exposure settings are refused outside benchmark mode.
//!
//! The full cross product of the safety-relevant discrete settings, each row delivered through
//! TOML, YAML and KYRODB__* environment variables to the real `KyroDbConfig::load` (+validate);
//! verdicts are judged by an independently re-stated predicate over the *effective* (loaded)
//! configuration, and must agree across delivery routes. A server leg feeds sampled rejected
//! rows to the real `kyrodb_server --config` and watches exit status and the data directory.

use crate::util::*;
use kyrodb_engine::config::{
    CacheStrategy, FsyncPolicy, KyroDbConfig, ObservabilityAuthMode, RecoveryMode,
};
use serde_json::{json, Value};
use std::collections::BTreeMap;

const ENVS: [&str; 7] = ["production", "pilot", "benchmark", " Production", "PILOT", "pilot ", "Benchmark"];
const FSYNC: [&str; 3] = ["none", "data_only", "full"];
const SNAP: [u64; 2] = [0, 1000];
const RECOV: [&str; 2] = ["strict", "best_effort"];
const STRAT: [&str; 3] = ["lru", "learned", "abtest"];
const OBS: [&str; 3] = ["disabled", "metrics_and_slo", "all"];
const HOSTS: [&str; 7] = ["127.0.0.1", "localhost", "::1", "[::1]", "0.0.0.0", "10.0.0.5", "example.com"];

#[derive(Clone, Debug)]
struct Row {
    env: &'static str,
    fsync: &'static str,
    snap: u64,
    recov: &'static str,
    strat: &'static str,
    auth: bool,
    rate: bool,
    obs: &'static str,
    fresh: bool,
    tls: bool,
    host: &'static str,
}

impl Row {
    fn from_index(mut i: usize) -> Row {
        let mut take = |n: usize| {
            let r = i % n;
            i /= n;
            r
        };
        Row {
            env: ENVS[take(ENVS.len())],
            fsync: FSYNC[take(3)],
            snap: SNAP[take(2)],
            recov: RECOV[take(2)],
            strat: STRAT[take(3)],
            auth: take(2) == 1,
            rate: take(2) == 1,
            obs: OBS[take(3)],
            fresh: take(2) == 1,
            tls: take(2) == 1,
            host: HOSTS[take(HOSTS.len())],
        }
    }
    fn total() -> usize {
        ENVS.len() * 3 * 2 * 2 * 3 * 2 * 2 * 3 * 2 * 2 * HOSTS.len()
    }
    fn to_json(&self) -> Value {
        json!({"environment": self.env, "fsync_policy": self.fsync, "snapshot_interval_mutations": self.snap, "recovery_mode": self.recov,
               "cache_strategy": self.strat, "auth": self.auth, "rate_limit": self.rate, "observability_auth": self.obs,
               "allow_fresh_start": self.fresh, "tls": self.tls, "host": self.host})
    }
    /// flat key -> value (string form) for the three delivery routes; the remaining settings are
    /// randomised within their valid ranges so that rows are never rejected for unrelated reasons
    fn settings(&self, rng: &mut Rng, data_dir: &str) -> Vec<(&'static str, String, bool)> {
        // (dotted key, value, is_string)
        let port = 20000 + rng.below(20000);
        let cap = rng.range(10, 5000);
        // the unsafe snapshot value is also delivered under the legacy key name (accepted as an alias);
        // only where every route must reject the row anyway, so route-consistency stays meaningful
        let legacy_snapshot_key = self.snap == 0 && self.env.trim().to_ascii_lowercase() != "benchmark" && rng.chance(0.5);
        // "whatever the remaining settings are": a separate HTTP bind host in half of the rows
        let http_host: Option<&'static str> = if rng.chance(0.5) { Some(HOSTS[rng.usize_below(HOSTS.len())]) } else { None };
        let mut v = vec![
            ("environment.type", self.env.to_string(), true),
            ("persistence.fsync_policy", self.fsync.to_string(), true),
            (if legacy_snapshot_key { "persistence.snapshot_interval_inserts" } else { "persistence.snapshot_interval_mutations" }, self.snap.to_string(), false),
            ("persistence.recovery_mode", self.recov.to_string(), true),
            ("persistence.allow_fresh_start_on_recovery_failure", self.fresh.to_string(), false),
            ("persistence.data_dir", data_dir.to_string(), true),
            ("persistence.wal_flush_interval_ms", rng.range(0, 500).to_string(), false),
            ("cache.strategy", self.strat.to_string(), true),
            ("cache.capacity", cap.to_string(), false),
            ("cache.min_training_samples", rng.range(1, cap).to_string(), false),
            ("auth.enabled", self.auth.to_string(), false),
            ("auth.api_keys_file", "/nonexistent/api_keys.yaml".to_string(), true),
            ("rate_limit.enabled", self.rate.to_string(), false),
            ("server.observability_auth", self.obs.to_string(), true),
            ("server.host", self.host.to_string(), true),
            ("server.port", port.to_string(), false),
            ("server.tls.enabled", self.tls.to_string(), false),
            ("server.tls.cert_path", "/nonexistent/server.crt".to_string(), true),
            ("server.tls.key_path", "/nonexistent/server.key".to_string(), true),
            ("hnsw.dimension", rng.range(2, 64).to_string(), false),
        ];
        if let Some(h) = http_host {
            v.push(("server.http_host", h.to_string(), true));
        }
        v
    }
}

fn render_toml(s: &[(&'static str, String, bool)]) -> String {
    // group by table path
    let mut tables: BTreeMap<String, Vec<(String, String)>> = BTreeMap::new();
    for (k, v, is_str) in s {
        let (t, key) = k.rsplit_once('.').unwrap();
        let val = if *is_str { format!("{:?}", v) } else { v.clone() };
        tables.entry(t.to_string()).or_default().push((key.to_string(), val));
    }
    let mut out = String::new();
    for (t, kvs) in tables {
        out.push_str(&format!("[{}]\n", t));
        for (k, v) in kvs {
            out.push_str(&format!("{} = {}\n", k, v));
        }
        out.push('\n');
    }
    out
}

fn render_yaml(s: &[(&'static str, String, bool)]) -> String {
    // nested maps, two levels max three
    #[derive(Default)]
    struct Node {
        leaf: Option<String>,
        kids: BTreeMap<String, Node>,
    }
    let mut root = Node::default();
    for (k, v, is_str) in s {
        let mut n = &mut root;
        for part in k.split('.') {
            n = n.kids.entry(part.to_string()).or_default();
        }
        n.leaf = Some(if *is_str { format!("{:?}", v) } else { v.clone() });
    }
    fn emit(n: &Node, depth: usize, out: &mut String) {
        for (k, c) in &n.kids {
            if let Some(l) = &c.leaf {
                out.push_str(&format!("{}{}: {}\n", "  ".repeat(depth), k, l));
            } else {
                out.push_str(&format!("{}{}:\n", "  ".repeat(depth), k));
                emit(c, depth + 1, out);
            }
        }
    }
    let mut out = String::new();
    emit(&root, 0, &mut out);
    out
}

fn env_name(k: &str) -> String {
    format!("KYRODB__{}", k.replace('.', "__").to_uppercase())
}

/// reference loopback classification (independent of config.rs)
fn ref_loopback(host: &str) -> bool {
    let h = host.trim();
    let h = h.strip_prefix('[').and_then(|x| x.strip_suffix(']')).unwrap_or(h);
    let h = h.split('%').next().unwrap_or(h).trim().to_ascii_lowercase();
    if h == "localhost" {
        return true;
    }
    match h.parse::<std::net::IpAddr>() {
        Ok(ip) => ip.is_loopback(),
        Err(_) => false,
    }
}

/// The rule of C18 re-stated over the effective configuration. Returns the clauses an *accepted*
/// configuration violates (empty = acceptable).
fn unsafe_clauses(c: &KyroDbConfig) -> Vec<&'static str> {
    let env = c.environment.environment_type.trim().to_ascii_lowercase();
    let mut v = Vec::new();
    if env == "benchmark" {
        return v;
    }
    // production, pilot (and anything else that is not explicitly benchmark must be at least as safe)
    if matches!(c.persistence.fsync_policy, FsyncPolicy::None) {
        v.push("fsync disabled outside benchmark");
    }
    // the effective value is what the server reads (accessor), not only the raw field
    if c.persistence.snapshot_interval_mutations == 0 || c.snapshot_interval_mutations() == 0 {
        v.push("snapshots disabled outside benchmark");
    }
    if !matches!(c.persistence.recovery_mode, RecoveryMode::Strict) {
        v.push("non-strict recovery outside benchmark");
    }
    if !matches!(c.cache.strategy, CacheStrategy::Learned) {
        v.push("non-learned cache strategy outside benchmark");
    }
    let loopback = ref_loopback(&c.server.host);
    if env == "pilot" {
        if !c.auth.enabled {
            v.push("pilot without authentication");
        }
        if !c.rate_limit.enabled {
            v.push("pilot without rate limiting");
        }
        if c.server.observability_auth == ObservabilityAuthMode::Disabled {
            v.push("pilot with unprotected observability endpoints");
        }
        if c.persistence.allow_fresh_start_on_recovery_failure {
            v.push("pilot with fresh-start-after-failed-recovery");
        }
        if !(c.server.tls.enabled || loopback) {
            v.push("pilot on a non-loopback bind without TLS");
        }
    }
    if env == "production" && !loopback && !c.auth.enabled {
        v.push("production on a non-loopback bind without authentication");
    }
    if env != "production" && env != "pilot" {
        v.push("unknown environment accepted");
    }
    v
}

fn clear_env() {
    let keys: Vec<String> = std::env::vars().map(|(k, _)| k).filter(|k| k.starts_with("KYRODB")).collect();
    for k in keys {
        std::env::remove_var(k);
    }
}

pub fn run(args: &Args) -> Out {
    let leg = args.get("leg").unwrap_or("grid").to_string();
    let mut out = Out::new("C18", &leg);
    match leg.as_str() {
        "grid" => run_grid(args, &mut out),
        "server" => run_server(args, &mut out),
        _ => {}
    }
    out
}

fn run_grid(args: &Args, out: &mut Out) {
    clear_env();
    let scratch = Scratch::new("c18");
    let total = Row::total();
    let mut accepted = 0u64;
    let mut rejected = 0u64;
    let only: Option<usize> = args.replay.as_ref().and_then(|p| {
        let v: Value = serde_json::from_str(&std::fs::read_to_string(p).ok()?).ok()?;
        v["replay"]["row_index"].as_u64().map(|x| x as usize)
    });
    for i in 0..total {
        if let Some(o) = only {
            if i != o {
                continue;
            }
        } else if !args.mine(i) {
            continue;
        }
        let row = Row::from_index(i);
        let mut rng = Rng::derive(args.seed, i as u64, 0xC18);
        let settings = row.settings(&mut rng, &scratch.sub("never-created").to_string_lossy());
        let mut verdicts: Vec<(&str, Result<KyroDbConfig, String>)> = Vec::new();
        // route 1: TOML
        let tp = scratch.sub("row.toml");
        std::fs::write(&tp, render_toml(&settings)).expect("write toml");
        verdicts.push(("toml", KyroDbConfig::load(Some(tp.to_str().unwrap())).map_err(|e| format!("{:#}", e))));
        // route 2: YAML
        let yp = scratch.sub("row.yaml");
        std::fs::write(&yp, render_yaml(&settings)).expect("write yaml");
        verdicts.push(("yaml", KyroDbConfig::load(Some(yp.to_str().unwrap())).map_err(|e| format!("{:#}", e))));
        // route 3: environment variables over built-in defaults (single-threaded process)
        for (k, v, _) in &settings {
            std::env::set_var(env_name(k), v);
        }
        verdicts.push(("env", KyroDbConfig::load(None).map_err(|e| format!("{:#}", e))));
        // route 4 (every 5th row): a benchmark file overridden by environment variables
        if i % 5 == 0 {
            let bp = scratch.sub("bench.toml");
            std::fs::write(&bp, "[environment]\ntype = \"benchmark\"\n[persistence]\nfsync_policy = \"none\"\nsnapshot_interval_mutations = 0\n").expect("write");
            verdicts.push(("env-over-benchmark-file", KyroDbConfig::load(Some(bp.to_str().unwrap())).map_err(|e| format!("{:#}", e))));
        }
        clear_env();
        out.eval();
        let mut any_ok = None;
        let mut any_err = None;
        for (route, v) in &verdicts {
            out.count("loads", 1);
            match v {
                Ok(cfg) => {
                    accepted += 1;
                    any_ok = Some(*route);
                    let bad = unsafe_clauses(cfg);
                    if !bad.is_empty() {
                        out.violation(
                            format!("unsafe-config-accepted|{}", bad[0]),
                            format!("row {} delivered via {} was accepted although: {:?}; row = {}", i, route, bad, row.to_json()),
                            json!({"check":"C18","leg":"grid","seed":args.seed,"row_index":i,"row":row.to_json(),"route":route}),
                        );
                    }
                    // delivery fidelity: what was loaded is what was supplied
                    let eff_env = cfg.environment.environment_type.trim().to_ascii_lowercase();
                    if eff_env != row.env.trim().to_ascii_lowercase() || cfg.server.host.trim() != row.host || cfg.auth.enabled != row.auth {
                        out.violation(
                            "delivery-dropped-setting",
                            format!("row {} via {}: effective environment {:?} host {:?} auth {} differ from the supplied row {}", i, route, cfg.environment.environment_type, cfg.server.host, cfg.auth.enabled, row.to_json()),
                            json!({"check":"C18","leg":"grid","seed":args.seed,"row_index":i,"row":row.to_json(),"route":route}),
                        );
                    }
                }
                Err(_) => {
                    rejected += 1;
                    any_err = Some(*route);
                }
            }
        }
        if let (Some(a), Some(b)) = (any_ok, any_err) {
            let detail: Vec<String> = verdicts.iter().map(|(r, v)| format!("{}: {}", r, match v { Ok(_) => "accepted".to_string(), Err(e) => format!("rejected ({})", e.chars().take(120).collect::<String>()) })).collect();
            out.violation(
                "route-disagreement",
                format!("row {} accepted via {} but rejected via {}: {:?}; row = {}", i, a, b, detail, row.to_json()),
                json!({"check":"C18","leg":"grid","seed":args.seed,"row_index":i,"row":row.to_json()}),
            );
        }
        // distinct & non-trivial: rows in a non-benchmark environment (the rule applies)
        if !row.env.trim().eq_ignore_ascii_case("benchmark") {
            out.distinct(&i);
        }
        if i % 20011 == 0 {
            out.sample(json!({"row_index": i, "row": row.to_json(), "verdicts": verdicts.iter().map(|(r, v)| json!({"route": r, "accepted": v.is_ok()})).collect::<Vec<_>>() }));
        }
    }
    out.count("rows_accepted_loads", accepted);
    out.count("rows_rejected_loads", rejected);
    if args.shard == 0 {
        out.count("grid_rows_total", total as u64);
        // the shipped example configurations must satisfy the rule as well
        for f in ["/repo/config.pilot.toml", "/repo/config.example.toml", "/repo/config.pilot.yaml", "/repo/config.example.yaml"] {
            if std::path::Path::new(f).exists() {
                match KyroDbConfig::load(Some(f)) {
                    Ok(cfg) => {
                        let bad = unsafe_clauses(&cfg);
                        out.count("shipped_configs_checked", 1);
                        if !bad.is_empty() {
                            out.violation(format!("unsafe-config-accepted|{}", bad[0]), format!("shipped {} accepted although {:?}", f, bad), json!({"file": f}));
                        }
                    }
                    Err(e) => out.note(format!("shipped {} rejected by load: {}", f, format!("{:#}", e).chars().take(160).collect::<String>())),
                }
            }
        }
    }
}

/// Rejected rows through the real server binary: must exit non-zero quickly and never create
/// the data directory.
fn run_server(args: &Args, out: &mut Out) {
    clear_env();
    let Some(server) = args.get("server") else {
        out.note("no server binary given");
        return;
    };
    let scratch = Scratch::new("c18s");
    let total = Row::total();
    let n = args.n(48, 640);
    let mut rng = Rng::derive(args.seed, 0, 0x5C18);
    let mut done = 0;
    let mut idx = 0usize;
    while done < n && idx < 200_000 {
        idx += 1;
        let i = rng.usize_below(total);
        if !args.mine(idx) {
            continue;
        }
        let row = Row::from_index(i);
        let mut r2 = Rng::derive(args.seed, i as u64, 0xC18);
        let data_dir = scratch.sub(&format!("data{}", idx));
        let settings = row.settings(&mut r2, &data_dir.to_string_lossy());
        let tp = scratch.sub(&format!("row{}.toml", idx));
        std::fs::write(&tp, render_toml(&settings)).expect("write");
        let in_process = KyroDbConfig::load(Some(tp.to_str().unwrap()));
        if in_process.is_ok() {
            continue; // only rejected rows are fed to the binary (accepted rows would start a server)
        }
        done += 1;
        let child = std::process::Command::new(server)
            .arg("--config")
            .arg(&tp)
            .env_remove("KYRODB_CONFIG")
            .stdout(std::process::Stdio::null())
            .stderr(std::process::Stdio::null())
            .spawn();
        let mut child = match child {
            Ok(c) => c,
            Err(e) => {
                out.inconclusive(format!("cannot spawn server: {}", e));
                return;
            }
        };
        let t0 = std::time::Instant::now();
        let mut status = None;
        while t0.elapsed().as_secs() < 60 {
            match child.try_wait() {
                Ok(Some(s)) => {
                    status = Some(s);
                    break;
                }
                _ => std::thread::sleep(std::time::Duration::from_millis(20)),
            }
        }
        out.eval();
        out.distinct(&i);
        match status {
            None => {
                let _ = child.kill();
                let _ = child.wait();
                out.violation(
                    "server-started-on-rejected-config",
                    format!("kyrodb_server kept running (>60 s) on a configuration that KyroDbConfig::load rejects: {}", row.to_json()),
                    json!({"check":"C18","leg":"server","seed":args.seed,"row_index":i,"row":row.to_json()}),
                );
            }
            Some(s) if s.success() => out.violation(
                "server-exit-0-on-rejected-config",
                format!("kyrodb_server exited 0 on a rejected configuration: {}", row.to_json()),
                json!({"check":"C18","leg":"server","seed":args.seed,"row_index":i,"row":row.to_json()}),
            ),
            Some(_) => {}
        }
        if data_dir.exists() {
            out.violation(
                "server-touched-data-dir-on-rejected-config",
                format!("kyrodb_server created {} on a rejected configuration: {}", data_dir.display(), row.to_json()),
                json!({"check":"C18","leg":"server","seed":args.seed,"row_index":i,"row":row.to_json()}),
            );
        }
        if done % 17 == 1 {
            out.sample(json!({"leg":"server","row": row.to_json(), "exit": status.map(|s| s.code())}));
        }
    }
}
