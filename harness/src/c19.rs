//! C19 rate limits bound admitted traffic: admission-bound, no-spurious-refusal and refund monitors.

use crate::util::*;
use kyrodb_engine::RateLimiter;
use serde_json::json;
use std::sync::atomic::{AtomicU64, Ordering};
use std::sync::{Arc, Barrier};
use std::time::{Duration, Instant};

struct Row {
    rate: u32,
    global: Option<u32>,
    tenants: usize,
    threads: usize,
    /// 0 burst, 1 paced, 2 burst-idle-burst, 3 one hot tenant saturating the global bucket,
    /// 4 within-budget (no refusal possible), 5 refund probe, 6 a tenant's own refusals must not
    /// burn the global budget (a quiet tenant below its rate is then not refused)
    pattern: u8,
    calls_per_thread: usize,
}

fn make_row(rng: &mut Rng, idx: usize) -> Row {
    let pattern = (idx % 7) as u8;
    let rates = [1u32, 2, 5, 10, 50, 100, 1000, 10_000];
    let rate = rates[rng.usize_below(rates.len())];
    let tenants = rng.range(1, 8) as usize;
    let threads = [1usize, 2, 4, 8, 16][rng.usize_below(5)];
    let global = match pattern {
        3 => Some((rate / 2).max(1)),
        5 => Some(rng.range(1, 3) as u32),
        _ => match rng.below(3) {
            0 => None,
            1 => Some((rate as u64 * tenants as u64 / 2).max(1) as u32),
            _ => Some(rate.saturating_mul(tenants as u32).saturating_mul(2).max(1)),
        },
    };
    Row {
        rate,
        global,
        tenants,
        threads,
        pattern,
        calls_per_thread: match pattern {
            1 => 40,
            _ => (rate as usize * 3 / threads.max(1)).clamp(5, 4000),
        },
    }
}

pub fn run(args: &Args) -> Out {
    let mut out = Out::new("C19", "admission-bounds");
    let n = args.n(1_344, 13_440);
    let only: Option<usize> = args.replay.as_ref().and_then(|p| {
        let v: serde_json::Value = serde_json::from_str(&std::fs::read_to_string(p).ok()?).ok()?;
        v["replay"]["row"].as_u64().map(|x| x as usize)
    });
    for idx in 0..n {
        if let Some(o) = only {
            if idx != o {
                continue;
            }
        } else if !args.mine(idx) {
            continue;
        }
        let mut rng = Rng::derive(args.seed, idx as u64, 0xC19);
        let row = make_row(&mut rng, idx);
        run_row(args.seed, idx, &row, &mut out);
    }
    out
}

/// pattern 6: a noisy tenant far above its own small rate (its refusals come from its OWN bucket),
/// then a quiet tenant sends no more than its capacity while the global bucket still has room
fn run_noisy_quiet(seed: u64, idx: usize, out: &mut Out) {
    let mut rng = Rng::derive(seed, idx as u64, 0xC19_6);
    let noisy_rate = rng.range(1, 3) as u32;
    let quiet_rate = rng.range(3, 20) as u32;
    let noisy_calls = rng.range(40, 400) as usize;
    let threads = *rng.pick(&[1usize, 2, 4, 8]);
    // room for everything that can legitimately be admitted: the noisy tenant's burst + refill over a
    // generous 2 s, plus the quiet tenant's whole capacity
    let global = noisy_rate * 3 + quiet_rate + 5 + rng.below(40) as u32;
    let limiter = Arc::new(RateLimiter::new_with_global(Some(global)));
    let desc = json!({"row": idx, "seed": seed, "pattern": 6, "noisy_rate": noisy_rate, "quiet_rate": quiet_rate, "noisy_calls": noisy_calls, "threads": threads, "global": global});
    let t0 = Instant::now();
    let admitted = Arc::new(AtomicU64::new(0));
    let hs: Vec<_> = (0..threads)
        .map(|_| {
            let (l, a) = (limiter.clone(), admitted.clone());
            let n = noisy_calls / threads;
            std::thread::spawn(move || {
                for _ in 0..n {
                    if l.check_limit("noisy", noisy_rate) {
                        a.fetch_add(1, Ordering::SeqCst);
                    }
                }
            })
        })
        .collect();
    for h in hs {
        let _ = h.join();
    }
    let noisy_admitted = admitted.load(Ordering::SeqCst);
    let mut quiet_refused = 0u64;
    for _ in 0..quiet_rate {
        if !limiter.check_limit("quiet", quiet_rate) {
            quiet_refused += 1;
        }
    }
    let dt = t0.elapsed().as_secs_f64();
    out.eval();
    out.distinct(&desc.to_string());
    out.count("calls", noisy_calls as u64 + quiet_rate as u64);
    // the global bucket started full (G tokens) and refill only adds: with noisy_admitted + quiet_rate <= G
    // the quiet tenant (a fresh, full bucket of quiet_rate tokens) cannot legitimately be refused
    if noisy_admitted + quiet_rate as u64 <= global as u64 && quiet_refused > 0 {
        out.violation(
            "tenant-refusal-consumed-global-budget",
            format!(
                "quiet tenant (rate {}) had {} of {} requests refused although only {} requests had been admitted against a global limit of {} ({} calls of the noisy tenant were refused by its own bucket, rate {}); elapsed {:.4}s; {}",
                quiet_rate, quiet_refused, quiet_rate, noisy_admitted, global, noisy_calls as u64 - noisy_admitted, noisy_rate, dt, desc
            ),
            desc.clone(),
        );
    }
}

fn run_row(seed: u64, idx: usize, row: &Row, out: &mut Out) {
    if row.pattern == 6 {
        run_noisy_quiet(seed, idx, out);
        return;
    }
    let limiter = Arc::new(RateLimiter::new_with_global(row.global));
    let desc = json!({"row": idx, "seed": seed, "rate": row.rate, "global": row.global, "tenants": row.tenants, "threads": row.threads, "pattern": row.pattern, "calls_per_thread": row.calls_per_thread});
    let admitted: Arc<Vec<AtomicU64>> = Arc::new((0..row.tenants).map(|_| AtomicU64::new(0)).collect());
    let refused: Arc<Vec<AtomicU64>> = Arc::new((0..row.tenants).map(|_| AtomicU64::new(0)).collect());
    let sent: Arc<Vec<AtomicU64>> = Arc::new((0..row.tenants).map(|_| AtomicU64::new(0)).collect());

    // pattern 4: every tenant sends <= capacity and the total <= G: no refusal is possible
    // pattern 5: refund probe (single burst, checked through available_tokens afterwards)
    let per_tenant_budget: Option<u64> = if row.pattern == 4 {
        let g = row.global.map(|g| g as u64).unwrap_or(u64::MAX);
        Some((row.rate as u64).min(g / row.tenants as u64))
    } else {
        None
    };
    let budget_left: Arc<Vec<AtomicU64>> = Arc::new((0..row.tenants).map(|_| AtomicU64::new(per_tenant_budget.unwrap_or(u64::MAX))).collect());

    let barrier = Arc::new(Barrier::new(row.threads + 1));
    let mut handles = Vec::new();
    for t in 0..row.threads {
        let limiter = limiter.clone();
        let admitted = admitted.clone();
        let refused = refused.clone();
        let sent = sent.clone();
        let budget_left = budget_left.clone();
        let barrier = barrier.clone();
        let (rate, tenants, pattern, calls) = (row.rate, row.tenants, row.pattern, row.calls_per_thread);
        let mut rng = Rng::derive(seed, idx as u64, 0x7000 + t as u64);
        handles.push(std::thread::spawn(move || {
            barrier.wait();
            for c in 0..calls {
                let tenant = match pattern {
                    3 if rng.chance(0.9) => 0,
                    _ => rng.usize_below(tenants),
                };
                if pattern == 4 {
                    // atomically take one unit of this tenant's budget or skip
                    let mut cur = budget_left[tenant].load(Ordering::SeqCst);
                    loop {
                        if cur == 0 {
                            break;
                        }
                        match budget_left[tenant].compare_exchange(cur, cur - 1, Ordering::SeqCst, Ordering::SeqCst) {
                            Ok(_) => break,
                            Err(x) => cur = x,
                        }
                    }
                    if cur == 0 {
                        continue;
                    }
                }
                sent[tenant].fetch_add(1, Ordering::SeqCst);
                if limiter.check_limit(&format!("tenant{}", tenant), rate) {
                    admitted[tenant].fetch_add(1, Ordering::SeqCst);
                } else {
                    refused[tenant].fetch_add(1, Ordering::SeqCst);
                }
                match pattern {
                    1 => std::thread::sleep(Duration::from_micros(500)),
                    2 if c == calls / 2 => std::thread::sleep(Duration::from_millis(30)),
                    _ => {}
                }
            }
        }));
    }
    // interval measured from before the first call to after the last one
    let t0 = Instant::now();
    barrier.wait();
    for h in handles {
        let _ = h.join();
    }
    // refund probe reads the buckets before taking t1 so that refill can only have added tokens
    let mut avail = Vec::new();
    for t in 0..row.tenants {
        avail.push(limiter.available_tokens(&format!("tenant{}", t)));
    }
    let t1 = Instant::now();
    let dt = (t1 - t0).as_secs_f64();

    out.eval();
    out.distinct(&desc.to_string());
    let mut total_adm = 0u64;
    let mut total_ref = 0u64;
    let cap = row.rate as f64;
    for t in 0..row.tenants {
        let a = admitted[t].load(Ordering::SeqCst);
        let r = refused[t].load(Ordering::SeqCst);
        total_adm += a;
        total_ref += r;
        let bound = cap + cap * dt + 1.0;
        if a as f64 > bound {
            out.violation(
                "tenant-bound-exceeded",
                format!("tenant {} admitted {} > capacity {} + rate*{:.6}s + 1 = {:.2}; {}", t, a, row.rate, dt, bound, desc),
                desc.clone(),
            );
        }
        if let Some(av) = avail[t] {
            // tokens can never exceed capacity, and can never be below capacity - admitted (refill only adds,
            // a global refusal must not consume the tenant's budget)
            if av > cap + 1e-6 {
                out.violation("tokens-above-capacity", format!("tenant {} holds {} tokens > capacity {}; {}", t, av, row.rate, desc), desc.clone());
            }
            if av < cap - a as f64 - 1e-6 {
                out.violation(
                    "global-refusal-consumed-tenant-budget",
                    format!("tenant {} has {} tokens left but was only admitted {} of capacity {} (refused {}): refusals consumed its budget; {}", t, av, a, row.rate, r, desc),
                    desc.clone(),
                );
            }
        }
    }
    if let Some(g) = row.global {
        let bound = g as f64 + g as f64 * dt + 1.0;
        if total_adm as f64 > bound {
            out.violation(
                "global-bound-exceeded",
                format!("total admitted {} > global {} + {}*{:.6}s + 1 = {:.2}; {}", total_adm, g, g, dt, bound, desc),
                desc.clone(),
            );
        }
    }
    if row.pattern == 4 && total_ref > 0 {
        out.violation(
            "spurious-refusal",
            format!("{} request(s) refused although every tenant sent <= its capacity and the total sent <= the global limit; {}", total_ref, desc),
            desc.clone(),
        );
    }
    out.count("calls", (0..row.tenants).map(|t| sent[t].load(Ordering::SeqCst)).sum::<u64>());
    out.count("admitted", total_adm);
    out.count("refused", total_ref);
    if idx % 61 == 0 {
        out.sample(json!({"row": desc, "admitted": total_adm, "refused": total_ref, "interval_s": dt}));
    }
}

// ------------------------------------------------------------------------------------------
// server leg: the same bounds through the real binary, every data RPC, several connections
// ------------------------------------------------------------------------------------------

const RPCS: [&str; 12] = ["Insert", "Query", "BulkQuery", "Search", "UpdateMetadata", "Delete", "BatchDelete", "BulkInsert(1)", "BulkLoadHnsw(1)", "BulkSearch(1)", "BulkInsert(stream)", "BulkSearch(stream)"];

/// send one request (or one stream of `n` items); returns (admitted, refused) counts
fn fire(cl: &mut crate::srv::Cl, rpc: &str, i: u64, n_stream: usize, v: &[f32]) -> (u64, u64) {
    use kyrodb_engine::proto::{InsertRequest, SearchRequest};
    use tonic::Code;
    let lim = |c: Code| c == Code::ResourceExhausted;
    let one = |r: Result<(), tonic::Status>| -> (u64, u64) {
        match r {
            Ok(()) => (1, 0),
            Err(s) if lim(s.code()) => (0, 1),
            // connection-level failures are no admission decision at all
            Err(s) if matches!(s.code(), Code::Unknown | Code::Unavailable | Code::Cancelled | Code::DeadlineExceeded) => (0, 0),
            Err(_) => (1, 0), // refused for another reason after admission (still counted as admitted: conservative)
        }
    };
    let item = |id: u64| InsertRequest { doc_id: id, embedding: v.to_vec(), metadata: Default::default(), namespace: String::new() };
    let sreq = || SearchRequest { query_embedding: v.to_vec(), k: 2, ..Default::default() };
    match rpc {
        "Insert" => one(cl.insert(1 + i % 4, v.to_vec(), Default::default(), "").map(|_| ())),
        "Query" => one(cl.query(1, false, "").map(|_| ())),
        "BulkQuery" => one(cl.bulk_query(vec![1, 2, 3], false, "").map(|_| ())),
        "Search" => one(cl.search(sreq()).map(|_| ())),
        "UpdateMetadata" => one(cl.update_metadata(1, Default::default(), true, "").map(|_| ())),
        "Delete" => one(cl.delete(9, "").map(|_| ())),
        "BatchDelete" => one(cl.batch_delete_ids(vec![9], "").map(|_| ())),
        "BulkInsert(1)" => one(cl.bulk_insert(vec![item(1 + i % 4)]).map(|_| ())),
        "BulkLoadHnsw(1)" => one(cl.bulk_load(vec![item(1 + i % 4)]).map(|_| ())),
        "BulkSearch(1)" => match cl.bulk_search(vec![sreq()]) {
            Ok(v) => {
                let adm = v.iter().filter(|r| r.is_ok()).count() as u64;
                (adm, 1 - adm.min(1))
            }
            Err(s) if lim(s.code()) => (0, 1),
            Err(s) if matches!(s.code(), Code::Unknown | Code::Unavailable | Code::Cancelled | Code::DeadlineExceeded) => (0, 0),
            Err(_) => (1, 0),
        },
        "BulkInsert(stream)" => match cl.bulk_insert((0..n_stream as u64).map(|k| item(1 + k % 4)).collect()) {
            // every accepted item was admitted
            Ok(r) => (r.total_inserted, r.total_failed),
            Err(s) if lim(s.code()) => (0, n_stream as u64),
            Err(_) => (0, 0),
        },
        _ => match cl.bulk_search((0..n_stream).map(|_| sreq()).collect()) {
            Ok(v) => {
                let adm = v.iter().filter(|r| r.is_ok()).count() as u64;
                (adm, n_stream as u64 - adm)
            }
            Err(s) if lim(s.code()) => (0, n_stream as u64),
            Err(_) => (0, 0),
        },
    }
}

pub fn run_server(args: &Args) -> Out {
    use crate::srv::*;
    let mut out = Out::new("C19", "server-admission");
    let Some(bin) = args.get("server").map(|s| s.to_string()) else {
        out.note("no server binary");
        return out;
    };
    let rt = new_rt();
    for idx in 0..args.n(32, 320) {
        if !args.mine(idx) {
            continue;
        }
        let mut rng = Rng::derive(args.seed, idx as u64, 0xC19_5);
        let rate = *rng.pick(&[2u32, 3, 5, 8]);
        let global = *rng.pick(&[6usize, 10, 50, 100_000]);
        let conns = *rng.pick(&[1usize, 2, 4]);
        // one tenant per RPC kind (separate buckets), plus three tenants for the global / no-refusal rows
        let mut tenants: Vec<TenantSpec> = RPCS.iter().enumerate().map(|(i, _)| TenantSpec { id: format!("t{}", i), max_vectors: 100_000, max_qps: rate, enabled: true, admin: false }).collect();
        for i in 0..3 {
            tenants.push(TenantSpec { id: format!("g{}", i), max_vectors: 100_000, max_qps: 40, enabled: true, admin: false });
        }
        // every third case leaves [rate_limit] disabled (the default): a tenant's own max_qps still applies
        let rl_disabled = idx % 3 == 2;
        let global = if rl_disabled { 100_000 } else { global };
        let cfg = SrvCfg { dim: 4, tenants, rate_limit: if rl_disabled { None } else { Some((100_000, global)) }, fsync: "none_is_refused_use_data_only", ..Default::default() };
        let cfg = SrvCfg { fsync: "data_only", ..cfg };
        let desc = json!({"check":"C19","leg":"server-admission","seed":args.seed,"case":idx,"tenant_max_qps":rate,"global":global,"connections":conns,"rate_limit_section_enabled":!rl_disabled});
        let mut srv = Srv::new(cfg, &bin, rt.clone());
        if let Err(e) = srv.start() {
            out.inconclusive(format!("server start failed: {}", e));
            continue;
        }
        let v = crate::model::gen_unit_vec(&mut rng, 4);
        let mut bad = false;
        let mut total_admitted_global_phase = 0u64;
        // row A: every RPC kind, own tenant, `conns` connections in parallel, 30 requests each
        let t_all0 = Instant::now();
        for (ri, rpc) in RPCS.iter().enumerate() {
            let tenant = format!("t{}", ri);
            let per_conn = 30usize;
            let stream = rpc.ends_with("(stream)");
            let mut handles = Vec::new();
            let t0 = Instant::now();
            for c in 0..conns {
                let Ok(mut cl) = srv.tenant_client(&tenant) else { continue };
                let (rpc, v) = (rpc.to_string(), v.clone());
                handles.push(std::thread::spawn(move || {
                    let (mut a, mut r) = (0u64, 0u64);
                    if stream {
                        let (x, y) = fire(&mut cl, &rpc, c as u64, per_conn, &v);
                        a += x;
                        r += y;
                    } else {
                        for i in 0..per_conn as u64 {
                            let (x, y) = fire(&mut cl, &rpc, i + c as u64, 0, &v);
                            a += x;
                            r += y;
                        }
                    }
                    (a, r)
                }));
            }
            let (mut adm, mut refd) = (0u64, 0u64);
            for h in handles {
                if let Ok((a, r)) = h.join() {
                    adm += a;
                    refd += r;
                }
            }
            let dt = t0.elapsed().as_secs_f64();
            total_admitted_global_phase += adm;
            let bound = rate as f64 + rate as f64 * dt + 1.0;
            out.count("server_requests", (conns * per_conn) as u64);
            out.count("server_refused_by_rate_limit", refd);
            // the global limit can only lower the admitted count, so the tenant bound is checked in every row
            if adm as f64 > bound {
                out.violation(
                    format!("server-tenant-bound-exceeded|{}", rpc),
                    format!("tenant {} (max_qps {}) had {} {} requests admitted over {} connection(s) in {:.3}s > {} + {}*dt + 1 = {:.1}", tenant, rate, adm, rpc, conns, dt, rate, rate, bound),
                    json!({"desc":desc,"rpc":rpc}),
                );
                bad = true;
            }
        }
        let dt_all = t_all0.elapsed().as_secs_f64();
        if global < 100_000 {
            let bound = global as f64 + global as f64 * dt_all + 1.0;
            if total_admitted_global_phase as f64 > bound {
                out.violation("server-global-bound-exceeded", format!("{} requests admitted across tenants in {:.3}s > global {} + {}*dt + 1 = {:.1}", total_admitted_global_phase, dt_all, global, global, bound), desc.clone());
                bad = true;
            }
        }
        // row B: no spurious refusal: after an idle second every bucket is full again; three tenants
        // (max_qps 40) send 10 requests each = 30 <= global only when the global limit is large
        if global >= 100_000 {
            std::thread::sleep(Duration::from_millis(1100));
            for i in 0..3 {
                let Ok(mut cl) = srv.tenant_client(&format!("g{}", i)) else { continue };
                let mut refd = 0;
                for k in 0..10u64 {
                    refd += fire(&mut cl, "Query", k, 0, &v).1;
                }
                if refd > 0 {
                    out.violation("server-spurious-refusal", format!("tenant g{} (max_qps 40, global {}) had {} of 10 requests refused from a full bucket", i, global, refd), desc.clone());
                    bad = true;
                }
            }
        }
        // row C: a tenant's own refusals must not burn the global budget. After an idle second (full
        // buckets) tenant t0 (max_qps `rate`) fires 60 requests, nearly all refused by its OWN bucket;
        // then g0 (max_qps 40) sends 10. With admitted(t0) + 10 <= G nothing of g0 may be refused.
        if global >= 100_000 || global >= rate as usize * 3 + 12 {
            std::thread::sleep(Duration::from_millis(1100));
            if let (Ok(mut noisy), Ok(mut quiet)) = (srv.tenant_client("t0"), srv.tenant_client("g0")) {
                let mut adm = 0u64;
                for k in 0..60u64 {
                    adm += fire(&mut noisy, "Query", k, 0, &v).0;
                }
                let mut refd = 0u64;
                for k in 0..10u64 {
                    refd += fire(&mut quiet, "Query", k, 0, &v).1;
                }
                if refd > 0 && adm + 10 <= global as u64 {
                    out.violation(
                        "server-tenant-refusal-consumed-global-budget",
                        format!("tenant g0 (max_qps 40) had {} of 10 requests refused although only {} requests of t0 (max_qps {}) had been admitted against the global limit {}", refd, adm, rate, global),
                        desc.clone(),
                    );
                    bad = true;
                }
            }
        }
        srv.kill9();
        out.eval();
        out.distinct(&desc.to_string());
        if !bad && idx % 4 == 0 {
            out.sample(json!({"case":desc,"rpc_kinds":RPCS.len(),"admitted_in_row_A":total_admitted_global_phase}));
        }
    }
    out
}
