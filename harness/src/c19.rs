//! C19 rate limits bound admitted traffic: admission-bound, no-spurious-refusal and refund monitors.

use crate::util::*;
use kyrodb_engine::RateLimiter;
use serde_json::json;
use std::sync::atomic::{AtomicU64, Ordering};
use std::sync::{Arc, Barrier};
use std::time::{Duration, Instant};

struct Row {
    rate: u32,
    global: Option<u32>,
    tenants: usize,
    threads: usize,
    /// 0 burst, 1 paced, 2 burst-idle-burst, 3 one hot tenant saturating the global bucket,
    /// 4 within-budget (no refusal possible), 5 refund probe
    pattern: u8,
    calls_per_thread: usize,
}

fn make_row(rng: &mut Rng, idx: usize) -> Row {
    let pattern = (idx % 6) as u8;
    let rates = [1u32, 2, 5, 10, 50, 100, 1000, 10_000];
    let rate = rates[rng.usize_below(rates.len())];
    let tenants = rng.range(1, 8) as usize;
    let threads = [1usize, 2, 4, 8, 16][rng.usize_below(5)];
    let global = match pattern {
        3 => Some((rate / 2).max(1)),
        5 => Some(rng.range(1, 3) as u32),
        _ => match rng.below(3) {
            0 => None,
            1 => Some((rate as u64 * tenants as u64 / 2).max(1) as u32),
            _ => Some(rate.saturating_mul(tenants as u32).saturating_mul(2).max(1)),
        },
    };
    Row {
        rate,
        global,
        tenants,
        threads,
        pattern,
        calls_per_thread: match pattern {
            1 => 40,
            _ => (rate as usize * 3 / threads.max(1)).clamp(5, 4000),
        },
    }
}

pub fn run(args: &Args) -> Out {
    let mut out = Out::new("C19", "admission-bounds");
    let n = args.n(192, 3200);
    let only: Option<usize> = args.replay.as_ref().and_then(|p| {
        let v: serde_json::Value = serde_json::from_str(&std::fs::read_to_string(p).ok()?).ok()?;
        v["replay"]["row"].as_u64().map(|x| x as usize)
    });
    for idx in 0..n {
        if let Some(o) = only {
            if idx != o {
                continue;
            }
        } else if !args.mine(idx) {
            continue;
        }
        let mut rng = Rng::derive(args.seed, idx as u64, 0xC19);
        let row = make_row(&mut rng, idx);
        run_row(args.seed, idx, &row, &mut out);
    }
    out
}

fn run_row(seed: u64, idx: usize, row: &Row, out: &mut Out) {
    let limiter = Arc::new(RateLimiter::new_with_global(row.global));
    let desc = json!({"row": idx, "seed": seed, "rate": row.rate, "global": row.global, "tenants": row.tenants, "threads": row.threads, "pattern": row.pattern, "calls_per_thread": row.calls_per_thread});
    let admitted: Arc<Vec<AtomicU64>> = Arc::new((0..row.tenants).map(|_| AtomicU64::new(0)).collect());
    let refused: Arc<Vec<AtomicU64>> = Arc::new((0..row.tenants).map(|_| AtomicU64::new(0)).collect());
    let sent: Arc<Vec<AtomicU64>> = Arc::new((0..row.tenants).map(|_| AtomicU64::new(0)).collect());

    // pattern 4: every tenant sends <= capacity and the total <= G: no refusal is possible
    // pattern 5: refund probe (single burst, checked through available_tokens afterwards)
    let per_tenant_budget: Option<u64> = if row.pattern == 4 {
        let g = row.global.map(|g| g as u64).unwrap_or(u64::MAX);
        Some((row.rate as u64).min(g / row.tenants as u64))
    } else {
        None
    };
    let budget_left: Arc<Vec<AtomicU64>> = Arc::new((0..row.tenants).map(|_| AtomicU64::new(per_tenant_budget.unwrap_or(u64::MAX))).collect());

    let barrier = Arc::new(Barrier::new(row.threads + 1));
    let mut handles = Vec::new();
    for t in 0..row.threads {
        let limiter = limiter.clone();
        let admitted = admitted.clone();
        let refused = refused.clone();
        let sent = sent.clone();
        let budget_left = budget_left.clone();
        let barrier = barrier.clone();
        let (rate, tenants, pattern, calls) = (row.rate, row.tenants, row.pattern, row.calls_per_thread);
        let mut rng = Rng::derive(seed, idx as u64, 0x7000 + t as u64);
        handles.push(std::thread::spawn(move || {
            barrier.wait();
            for c in 0..calls {
                let tenant = match pattern {
                    3 if rng.chance(0.9) => 0,
                    _ => rng.usize_below(tenants),
                };
                if pattern == 4 {
                    // atomically take one unit of this tenant's budget or skip
                    let mut cur = budget_left[tenant].load(Ordering::SeqCst);
                    loop {
                        if cur == 0 {
                            break;
                        }
                        match budget_left[tenant].compare_exchange(cur, cur - 1, Ordering::SeqCst, Ordering::SeqCst) {
                            Ok(_) => break,
                            Err(x) => cur = x,
                        }
                    }
                    if cur == 0 {
                        continue;
                    }
                }
                sent[tenant].fetch_add(1, Ordering::SeqCst);
                if limiter.check_limit(&format!("tenant{}", tenant), rate) {
                    admitted[tenant].fetch_add(1, Ordering::SeqCst);
                } else {
                    refused[tenant].fetch_add(1, Ordering::SeqCst);
                }
                match pattern {
                    1 => std::thread::sleep(Duration::from_micros(500)),
                    2 if c == calls / 2 => std::thread::sleep(Duration::from_millis(30)),
                    _ => {}
                }
            }
        }));
    }
    // interval measured from before the first call to after the last one
    let t0 = Instant::now();
    barrier.wait();
    for h in handles {
        let _ = h.join();
    }
    // refund probe reads the buckets before taking t1 so that refill can only have added tokens
    let mut avail = Vec::new();
    for t in 0..row.tenants {
        avail.push(limiter.available_tokens(&format!("tenant{}", t)));
    }
    let t1 = Instant::now();
    let dt = (t1 - t0).as_secs_f64();

    out.eval();
    out.distinct(&desc.to_string());
    let mut total_adm = 0u64;
    let mut total_ref = 0u64;
    let cap = row.rate as f64;
    for t in 0..row.tenants {
        let a = admitted[t].load(Ordering::SeqCst);
        let r = refused[t].load(Ordering::SeqCst);
        total_adm += a;
        total_ref += r;
        let bound = cap + cap * dt + 1.0;
        if a as f64 > bound {
            out.violation(
                "tenant-bound-exceeded",
                format!("tenant {} admitted {} > capacity {} + rate*{:.6}s + 1 = {:.2}; {}", t, a, row.rate, dt, bound, desc),
                desc.clone(),
            );
        }
        if let Some(av) = avail[t] {
            // tokens can never exceed capacity, and can never be below capacity - admitted (refill only adds,
            // a global refusal must not consume the tenant's budget)
            if av > cap + 1e-6 {
                out.violation("tokens-above-capacity", format!("tenant {} holds {} tokens > capacity {}; {}", t, av, row.rate, desc), desc.clone());
            }
            if av < cap - a as f64 - 1e-6 {
                out.violation(
                    "global-refusal-consumed-tenant-budget",
                    format!("tenant {} has {} tokens left but was only admitted {} of capacity {} (refused {}): refusals consumed its budget; {}", t, av, a, row.rate, r, desc),
                    desc.clone(),
                );
            }
        }
    }
    if let Some(g) = row.global {
        let bound = g as f64 + g as f64 * dt + 1.0;
        if total_adm as f64 > bound {
            out.violation(
                "global-bound-exceeded",
                format!("total admitted {} > global {} + {}*{:.6}s + 1 = {:.2}; {}", total_adm, g, g, dt, bound, desc),
                desc.clone(),
            );
        }
    }
    if row.pattern == 4 && total_ref > 0 {
        out.violation(
            "spurious-refusal",
            format!("{} request(s) refused although every tenant sent <= its capacity and the total sent <= the global limit; {}", total_ref, desc),
            desc.clone(),
        );
    }
    out.count("calls", (0..row.tenants).map(|t| sent[t].load(Ordering::SeqCst)).sum::<u64>());
    out.count("admitted", total_adm);
    out.count("refused", total_ref);
    if idx % 61 == 0 {
        out.sample(json!({"row": desc, "admitted": total_adm, "refused": total_ref, "interval_s": dt}));
    }
}
