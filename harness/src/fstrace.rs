//! Reader of fsshim traces, in-memory file-system model with an explicit persistence model
//! (process kill / power loss), and materialisation of crash states into a directory.
#![allow(dead_code)]

use crate::util::Rng;
use std::collections::{BTreeMap, BTreeSet};
use std::path::Path;

#[derive(Clone, Debug)]
pub struct Rec {
    pub seq: u64,
    pub op: String,
    pub res: i64,
    pub errno: i32,
    pub p1: String,
    pub p2: String,
    pub off: u64,
    pub len: u64,
    pub flags: i64,
    pub data: Vec<u8>,
}

impl Rec {
    pub fn is_mark(&self) -> bool {
        self.op == "MARK"
    }
    /// a successful (state-changing) effect
    pub fn effective(&self) -> bool {
        !self.is_mark() && self.op != "KILL" && self.res >= 0
    }
    pub fn short(&self) -> String {
        format!(
            "#{} {} {}{} off={} len={} res={} errno={}",
            self.seq,
            self.op,
            self.p1.rsplit('/').next().unwrap_or(""),
            if self.p2.is_empty() || self.p2 == "NEW" || self.p2 == "EXISTED" { String::new() } else { format!(" -> {}", self.p2.rsplit('/').next().unwrap_or("")) },
            self.off,
            self.len,
            self.res,
            self.errno
        )
    }
}

fn unhex(s: &str) -> Vec<u8> {
    let b = s.as_bytes();
    let mut out = Vec::with_capacity(b.len() / 2);
    let h = |c: u8| -> u8 {
        match c {
            b'0'..=b'9' => c - b'0',
            b'a'..=b'f' => c - b'a' + 10,
            _ => 0,
        }
    };
    let mut i = 0;
    while i + 1 < b.len() {
        out.push((h(b[i]) << 4) | h(b[i + 1]));
        i += 2;
    }
    out
}

pub fn parse_trace(path: &Path) -> std::io::Result<Vec<Rec>> {
    let s = std::fs::read_to_string(path)?;
    let mut out = Vec::new();
    for line in s.lines() {
        let f: Vec<&str> = line.split('\t').collect();
        if f.len() < 10 {
            continue;
        }
        out.push(Rec {
            seq: f[0].parse().unwrap_or(0),
            op: f[1].to_string(),
            res: f[2].parse().unwrap_or(-1),
            errno: f[3].parse().unwrap_or(0),
            p1: f[4].to_string(),
            p2: f[5].to_string(),
            off: f[6].parse().unwrap_or(0),
            len: f[7].parse().unwrap_or(0),
            flags: f[8].parse().unwrap_or(0),
            data: unhex(f[9]),
        });
    }
    Ok(out)
}

/// tell the preloaded shim something (no-op when the shim is not loaded)
pub fn shim_ctl(cmd: &str) {
    let _ = std::fs::File::open(format!("/__verif_ctl__/{}", cmd));
}
pub fn shim_mark(text: &str) {
    shim_ctl(&format!("mark={}", text));
}
pub fn shim_loaded() -> bool {
    std::env::var("LD_PRELOAD").map(|v| v.contains("fsshim")).unwrap_or(false)
}

#[derive(Clone, Debug)]
enum FOp {
    Write { off: usize, data: Vec<u8> },
    Truncate { len: usize },
}

#[derive(Clone, Debug, Default)]
struct Inode {
    cur: Vec<u8>,
    synced: Vec<u8>,
    pending: Vec<FOp>,
}

#[derive(Clone, Debug)]
enum DOp {
    Link { name: String, ino: usize },
    Unlink { name: String },
    Rename { from: String, to: String },
}

/// File-system model of one directory tree (paths relative to the root, '/'-separated).
#[derive(Clone, Debug, Default)]
pub struct FsModel {
    inodes: Vec<Inode>,
    cur: BTreeMap<String, usize>,
    synced: BTreeMap<String, usize>,
    pending: Vec<DOp>,
    dirs: BTreeSet<String>,
    pub root: String,
}

const O_TRUNC: i64 = 0o1000;

fn apply_fop(buf: &mut Vec<u8>, op: &FOp, torn: Option<usize>) {
    match op {
        FOp::Write { off, data } => {
            let n = torn.map(|t| t.min(data.len())).unwrap_or(data.len());
            if buf.len() < off + n {
                buf.resize(off + n, 0);
            }
            buf[*off..off + n].copy_from_slice(&data[..n]);
        }
        FOp::Truncate { len } => buf.resize(*len, 0),
    }
}

fn apply_dop(map: &mut BTreeMap<String, usize>, op: &DOp) {
    match op {
        DOp::Link { name, ino } => {
            map.insert(name.clone(), *ino);
        }
        DOp::Unlink { name } => {
            map.remove(name);
        }
        DOp::Rename { from, to } => {
            if let Some(i) = map.remove(from) {
                map.insert(to.clone(), i);
            }
        }
    }
}

#[derive(Clone, Copy, Debug, PartialEq, Eq, Hash)]
pub enum Loss {
    /// process kill: every completed effect persists
    Kill,
    /// power loss, nothing unsynced survives
    AllLost,
    /// directory changes since the last directory fsync lost, file bytes kept
    DirLost,
    /// file bytes since each file's last fsync lost, directory changes kept
    DataLost,
    /// seeded in-order prefixes per file and for the directory
    Mixed(u64),
}

impl FsModel {
    pub fn new(root: &str) -> FsModel {
        FsModel {
            root: root.trim_end_matches('/').to_string(),
            ..Default::default()
        }
    }
    fn rel(&self, p: &str) -> Option<String> {
        let p = p.trim_end_matches('/');
        if p == self.root {
            return Some(String::new());
        }
        p.strip_prefix(&format!("{}/", self.root)).map(|s| s.to_string())
    }
    /// apply one successful effect (torn = only the first n bytes of a write)
    pub fn apply(&mut self, r: &Rec, torn: Option<usize>) {
        if !r.effective() && torn.is_none() {
            // failed calls still may have had a partial effect (INJ-PARTIAL-ERR)
            if !(r.op == "write" && r.p2 == "INJ-PARTIAL-ERR" && !r.data.is_empty()) {
                return;
            }
        }
        let Some(p) = self.rel(&r.p1) else { return };
        match r.op.as_str() {
            "open" => {
                if !self.cur.contains_key(&p) {
                    let ino = self.inodes.len();
                    self.inodes.push(Inode::default());
                    self.cur.insert(p.clone(), ino);
                    self.pending.push(DOp::Link { name: p, ino });
                } else if r.flags & O_TRUNC != 0 {
                    let ino = self.cur[&p];
                    self.inodes[ino].cur.clear();
                    self.inodes[ino].pending.push(FOp::Truncate { len: 0 });
                }
            }
            "write" => {
                if let Some(&ino) = self.cur.get(&p) {
                    let op = FOp::Write {
                        off: r.off as usize,
                        data: r.data.clone(),
                    };
                    apply_fop(&mut self.inodes[ino].cur, &op, torn);
                    let op = match (op, torn) {
                        (FOp::Write { off, data }, Some(t)) => FOp::Write {
                            off,
                            data: data[..t.min(data.len())].to_vec(),
                        },
                        (o, _) => o,
                    };
                    self.inodes[ino].pending.push(op);
                }
            }
            "ftruncate" => {
                if let Some(&ino) = self.cur.get(&p) {
                    let op = FOp::Truncate { len: r.len as usize };
                    apply_fop(&mut self.inodes[ino].cur, &op, None);
                    self.inodes[ino].pending.push(op);
                }
            }
            "fsync" | "fdatasync" => {
                if let Some(&ino) = self.cur.get(&p) {
                    self.inodes[ino].synced = self.inodes[ino].cur.clone();
                    self.inodes[ino].pending.clear();
                } else {
                    // a directory: persist the pending entry changes that live directly in it
                    let in_dir = |name: &str| -> bool {
                        let parent = name.rsplit_once('/').map(|x| x.0).unwrap_or("");
                        parent == p
                    };
                    let mut rest = Vec::new();
                    let pend = std::mem::take(&mut self.pending);
                    // in-order semantics: everything up to the last op in this directory is made durable
                    // only for ops in this directory; ops of other directories stay pending
                    for op in pend {
                        let hit = match &op {
                            DOp::Link { name, .. } | DOp::Unlink { name } => in_dir(name),
                            DOp::Rename { from, to } => in_dir(from) || in_dir(to),
                        };
                        if hit {
                            apply_dop(&mut self.synced, &op);
                        } else {
                            rest.push(op);
                        }
                    }
                    self.pending = rest;
                }
            }
            "rename" => {
                if let Some(to) = self.rel(&r.p2) {
                    let op = DOp::Rename { from: p, to };
                    apply_dop(&mut self.cur, &op);
                    self.pending.push(op);
                }
            }
            "unlink" => {
                let op = DOp::Unlink { name: p };
                apply_dop(&mut self.cur, &op);
                self.pending.push(op);
            }
            "mkdir" => {
                self.dirs.insert(p);
            }
            _ => {}
        }
    }

    /// number of unsynced things (used to decide whether loss variants differ from Kill)
    pub fn volatile_items(&self) -> usize {
        self.pending.len() + self.inodes.iter().map(|i| i.pending.len()).sum::<usize>()
    }

    /// the surviving files (relative path -> bytes) under a loss variant
    pub fn survive(&self, loss: Loss) -> BTreeMap<String, Vec<u8>> {
        let mut rng = match loss {
            Loss::Mixed(s) => Some(Rng::new(s)),
            _ => None,
        };
        // directory
        let dir: BTreeMap<String, usize> = match loss {
            Loss::Kill | Loss::DataLost => self.cur.clone(),
            Loss::AllLost | Loss::DirLost => self.synced.clone(),
            Loss::Mixed(_) => {
                let rng = rng.as_mut().unwrap();
                let keep = rng.usize_below(self.pending.len() + 1);
                let mut d = self.synced.clone();
                for op in self.pending.iter().take(keep) {
                    apply_dop(&mut d, op);
                }
                d
            }
        };
        let mut out = BTreeMap::new();
        for (name, ino) in dir {
            let i = &self.inodes[ino];
            let content = match loss {
                Loss::Kill | Loss::DirLost => i.cur.clone(),
                Loss::AllLost | Loss::DataLost => i.synced.clone(),
                Loss::Mixed(_) => {
                    let rng = rng.as_mut().unwrap();
                    let keep = rng.usize_below(i.pending.len() + 1);
                    let mut c = i.synced.clone();
                    for (j, op) in i.pending.iter().take(keep).enumerate() {
                        // the last kept write may be torn
                        let torn = if j + 1 == keep && rng.chance(0.5) {
                            match op {
                                FOp::Write { data, .. } if data.len() > 1 => Some(rng.usize_below(data.len())),
                                _ => None,
                            }
                        } else {
                            None
                        };
                        apply_fop(&mut c, op, torn);
                    }
                    c
                }
            };
            out.insert(name, content);
        }
        out
    }

    pub fn materialise(&self, loss: Loss, dst: &Path) -> std::io::Result<()> {
        let _ = std::fs::remove_dir_all(dst);
        std::fs::create_dir_all(dst)?;
        for d in &self.dirs {
            if !d.is_empty() {
                std::fs::create_dir_all(dst.join(d))?;
            }
        }
        for (name, content) in self.survive(loss) {
            let p = dst.join(&name);
            if let Some(parent) = p.parent() {
                std::fs::create_dir_all(parent)?;
            }
            std::fs::write(p, content)?;
        }
        Ok(())
    }
}

/// compare a directory with the kill-model view (replayer soundness check)
pub fn dir_equals(model: &FsModel, dir: &Path) -> Result<(), String> {
    let want = model.survive(Loss::Kill);
    let mut have = BTreeMap::new();
    fn walk(base: &Path, d: &Path, out: &mut BTreeMap<String, Vec<u8>>) {
        if let Ok(rd) = std::fs::read_dir(d) {
            for e in rd.flatten() {
                let p = e.path();
                if p.is_dir() {
                    walk(base, &p, out);
                } else if let Ok(c) = std::fs::read(&p) {
                    out.insert(p.strip_prefix(base).unwrap().to_string_lossy().to_string(), c);
                }
            }
        }
    }
    walk(dir, dir, &mut have);
    if want == have {
        return Ok(());
    }
    let mut diffs = Vec::new();
    for k in want.keys().chain(have.keys()).collect::<BTreeSet<_>>() {
        match (want.get(k), have.get(k)) {
            (Some(a), Some(b)) if a == b => {}
            (Some(a), Some(b)) => diffs.push(format!("{}: model {} bytes, disk {} bytes", k, a.len(), b.len())),
            (Some(_), None) => diffs.push(format!("{}: in model only", k)),
            (None, Some(_)) => diffs.push(format!("{}: on disk only", k)),
            _ => {}
        }
    }
    Err(diffs.join("; "))
}

impl FsModel {
    /// a model whose initial content is an existing directory, fully durable
    pub fn from_dir(root: &str, dir: &Path) -> FsModel {
        let mut m = FsModel::new(root);
        fn walk(base: &Path, d: &Path, m: &mut FsModel) {
            if let Ok(rd) = std::fs::read_dir(d) {
                for e in rd.flatten() {
                    let p = e.path();
                    if p.is_dir() {
                        m.dirs.insert(p.strip_prefix(base).unwrap().to_string_lossy().to_string());
                        walk(base, &p, m);
                    } else if let Ok(c) = std::fs::read(&p) {
                        let name = p.strip_prefix(base).unwrap().to_string_lossy().to_string();
                        let ino = m.inodes.len();
                        m.inodes.push(Inode {
                            cur: c.clone(),
                            synced: c,
                            pending: Vec::new(),
                        });
                        m.cur.insert(name.clone(), ino);
                        m.synced.insert(name, ino);
                    }
                }
            }
        }
        walk(dir, dir, &mut m);
        m
    }
}

/// file class of a path for structured signatures
pub fn file_class(p: &str) -> &'static str {
    let name = p.rsplit('/').next().unwrap_or("");
    if name == "MANIFEST" {
        "manifest"
    } else if name == "MANIFEST.tmp" {
        "manifest.tmp"
    } else if name.starts_with("wal_") {
        "wal"
    } else if name.starts_with("snapshot_") && name.ends_with(".tmp") {
        "snapshot.tmp"
    } else if name.starts_with("snapshot_") {
        "snapshot"
    } else if name.is_empty() || !name.contains('.') {
        "dir"
    } else {
        "other"
    }
}
