mod c01;
mod c01s;
mod c02;
mod c03;
mod c04;
mod c05;
mod c06;
mod c07;
mod c08;
mod c09;
mod c10;
mod c11;
mod c12;
mod c13;
mod c14;
mod c15;
mod c16;
mod c17;
mod c18;
mod c19;
mod fstrace;
mod model;
mod sched;
mod srv;
mod util;

use util::*;

fn main() {
    let argv: Vec<String> = std::env::args().skip(1).collect();
    if argv.is_empty() {
        eprintln!("usage: vh <check> [--seed N] [--tier quick|thorough] [--shard i/n] [--out file] [--replay file]");
        std::process::exit(2);
    }
    let cmd = argv[0].clone();
    let args = Args::parse(&argv[1..]);
    quiet_panics();
    let out = match cmd.as_str() {
        "c01" => c01::run(&args),
        "c02" => c02::run(&args),
        "c03" => c03::run(&args),
        "c04" => c04::run(&args, "C04"),
        "c20" => c04::run(&args, "C20"),
        "c10" => c10::run(&args),
        "c11" => c11::run(&args),
        "c12" => c12::run(&args),
        "c13" => {
            if args.get("leg") == Some("server") {
                c13::run_server(&args)
            } else {
                c13::run(&args)
            }
        }
        "c13-one" => {
            c13::run_one(&args);
            return;
        }
        "c06" => c06::run(&args),
        "c07" => c07::run(&args),
        "c05" => {
            if args.get("leg") == Some("server") {
                c05::run_server(&args)
            } else {
                c05::run(&args)
            }
        }
        "c08" => c08::run(&args),
        "c09" => c09::run(&args),
        "c14" => c14::run(&args),
        "c15" => c15::run(&args),
        "c15-probe" => {
            c15::probe(&args);
            return;
        }
        "c16" => c16::run(&args),
        "c17" => c17::run(&args),
        "c18" => c18::run(&args),
        "c19" => {
            if args.get("leg") == Some("server") {
                c19::run_server(&args)
            } else {
                c19::run(&args)
            }
        }
        "kernels" => {
            println!("{:?}", kyrodb_engine::verif_hooks::simd_available());
            return;
        }
        _ => {
            eprintln!("unknown check {}", cmd);
            std::process::exit(2);
        }
    };
    out.finish(&args);
}
