//! Sequential reference model of the collection, op generators, engine wrappers,
//! shape invariants (S) and the on-disk log consistency checker (L).
#![allow(dead_code)]

use crate::util::*;
use kyrodb_engine::config::DistanceMetric;
use kyrodb_engine::metrics::MetricsCollector;
use kyrodb_engine::persistence::{FsyncPolicy, Manifest, Snapshot, WalReader};
use kyrodb_engine::{
    digest_embedding, HnswBackend, LruCacheStrategy, QueryHashCache, TieredEngine,
    TieredEngineConfig,
};
use serde_json::{json, Value};
use std::collections::{BTreeMap, BTreeSet, HashMap};
use std::path::Path;
use std::sync::Arc;

pub type Meta = BTreeMap<String, String>;

pub fn to_hm(m: &Meta) -> HashMap<String, String> {
    m.iter().map(|(k, v)| (k.clone(), v.clone())).collect()
}
pub fn from_hm(m: &HashMap<String, String>) -> Meta {
    m.iter().map(|(k, v)| (k.clone(), v.clone())).collect()
}

#[derive(Clone, Debug, PartialEq)]
pub struct Doc {
    pub bits: Vec<u32>,
    pub meta: Meta,
}

#[derive(Clone, Debug, PartialEq, Default)]
pub struct Model {
    pub docs: BTreeMap<u64, Doc>,
}

pub fn metric_name(m: DistanceMetric) -> &'static str {
    match m {
        DistanceMetric::Cosine => "cosine",
        DistanceMetric::Euclidean => "euclidean",
        DistanceMetric::InnerProduct => "inner_product",
    }
}
pub fn metric_from(i: usize) -> DistanceMetric {
    match i % 3 {
        0 => DistanceMetric::Cosine,
        1 => DistanceMetric::Euclidean,
        _ => DistanceMetric::InnerProduct,
    }
}
pub fn normalizes(m: DistanceMetric) -> bool {
    matches!(m, DistanceMetric::Cosine | DistanceMetric::InnerProduct)
}

#[derive(Clone, Debug)]
pub enum Op {
    Insert { id: u64, vec: Vec<f32>, meta: Meta },
    Delete { id: u64 },
    BatchDelete { ids: Vec<u64> },
    UpdateMeta { id: u64, meta: Meta, merge: bool },
    Snapshot,
    Restart,
    Flush,
}

impl Op {
    pub fn to_json(&self) -> Value {
        match self {
            Op::Insert { id, vec, meta } => {
                json!({"op":"insert","id":id,"vec_bits":bits(vec),"vec":vec.iter().map(|x| format!("{:e}", x)).collect::<Vec<_>>(),"meta":meta})
            }
            Op::Delete { id } => json!({"op":"delete","id":id}),
            Op::BatchDelete { ids } => json!({"op":"batch_delete","ids":ids}),
            Op::UpdateMeta { id, meta, merge } => {
                json!({"op":"update_meta","id":id,"meta":meta,"merge":merge})
            }
            Op::Snapshot => json!({"op":"snapshot"}),
            Op::Restart => json!({"op":"restart"}),
            Op::Flush => json!({"op":"flush"}),
        }
    }
    pub fn from_json(v: &Value) -> Option<Op> {
        let meta_of = |v: &Value| -> Meta {
            v.as_object()
                .map(|o| {
                    o.iter()
                        .map(|(k, v)| (k.clone(), v.as_str().unwrap_or("").to_string()))
                        .collect()
                })
                .unwrap_or_default()
        };
        Some(match v["op"].as_str()? {
            "insert" => Op::Insert {
                id: v["id"].as_u64()?,
                vec: v["vec_bits"]
                    .as_array()?
                    .iter()
                    .map(|b| f32::from_bits(b.as_u64().unwrap_or(0) as u32))
                    .collect(),
                meta: meta_of(&v["meta"]),
            },
            "delete" => Op::Delete {
                id: v["id"].as_u64()?,
            },
            "batch_delete" => Op::BatchDelete {
                ids: v["ids"].as_array()?.iter().filter_map(|x| x.as_u64()).collect(),
            },
            "update_meta" => Op::UpdateMeta {
                id: v["id"].as_u64()?,
                meta: meta_of(&v["meta"]),
                merge: v["merge"].as_bool()?,
            },
            "snapshot" => Op::Snapshot,
            "restart" => Op::Restart,
            "flush" => Op::Flush,
            _ => return None,
        })
    }
    pub fn kind(&self) -> &'static str {
        match self {
            Op::Insert { .. } => "insert",
            Op::Delete { .. } => "delete",
            Op::BatchDelete { .. } => "batch_delete",
            Op::UpdateMeta { .. } => "update_meta",
            Op::Snapshot => "snapshot",
            Op::Restart => "restart",
            Op::Flush => "flush",
        }
    }
}

// ---------------------------------------------------------------------------------------------
// generators

/// A vector in the checked input domain: for normalising metrics either unit to ~1e-7 or with
/// squared norm well outside KyroDB's documented [0.98, 1.02] "already normalised" slack band.
pub fn gen_vec(rng: &mut Rng, dim: usize, metric: DistanceMetric) -> Vec<f32> {
    loop {
        let mut v: Vec<f64> = (0..dim).map(|_| rng.gauss()).collect();
        // sometimes sparse / axis-aligned / duplicates-prone
        match rng.below(10) {
            0 => {
                for x in v.iter_mut() {
                    *x = x.round();
                }
            }
            1 => {
                let keep = rng.usize_below(dim);
                for (i, x) in v.iter_mut().enumerate() {
                    if i != keep {
                        *x = 0.0;
                    }
                }
            }
            _ => {}
        }
        let n2: f64 = v.iter().map(|x| x * x).sum();
        if n2 < 1e-6 {
            continue;
        }
        let n = n2.sqrt();
        let scale = if normalizes(metric) {
            match rng.below(3) {
                0 => 1.0 / n,                               // unit
                1 => (0.2 + 0.6 * rng.f64()) / n,           // norm in [0.2,0.8] -> n2 <= 0.64
                _ => (1.2 + 8.0 * rng.f64()) / n,           // norm in [1.2,9.2] -> n2 >= 1.44
            }
        } else {
            match rng.below(3) {
                0 => 1.0 / n,
                1 => 1.0,
                _ => 0.01 + 20.0 * rng.f64(),
            }
        };
        let out: Vec<f32> = v.iter().map(|x| (x * scale) as f32).collect();
        let n2f: f64 = out.iter().map(|x| (*x as f64) * (*x as f64)).sum();
        if n2f < 1e-8 {
            continue;
        }
        if normalizes(metric) {
            let unit = (n2f - 1.0).abs() < 1e-5;
            let far = !(0.90..=1.10).contains(&n2f);
            if !(unit || far) {
                continue;
            }
        }
        return out;
    }
}

pub fn gen_unit_vec(rng: &mut Rng, dim: usize) -> Vec<f32> {
    loop {
        let v: Vec<f64> = (0..dim).map(|_| rng.gauss()).collect();
        let n2: f64 = v.iter().map(|x| x * x).sum();
        if n2 < 1e-6 {
            continue;
        }
        let n = n2.sqrt();
        return v.iter().map(|x| (x / n) as f32).collect();
    }
}

const META_KEYS: [&str; 3] = ["a", "b", "c"];
const META_VALS: [&str; 8] = ["x", "y", "1", "2", "10", "2.5", "", "zz"];

pub fn gen_meta(rng: &mut Rng) -> Meta {
    let mut m = Meta::new();
    for k in META_KEYS.iter() {
        if rng.chance(0.5) {
            m.insert(k.to_string(), rng.pick(&META_VALS).to_string());
        }
    }
    m
}

#[derive(Clone, Debug)]
pub struct GenCfg {
    pub n_ids: u64,
    pub dim: usize,
    pub metric: DistanceMetric,
    pub p_snapshot: f64,
    pub p_restart: f64,
    pub p_flush: f64,
}

pub fn gen_op(rng: &mut Rng, g: &GenCfg, live: &BTreeSet<u64>) -> Op {
    let r = rng.f64();
    if r < g.p_snapshot {
        return Op::Snapshot;
    }
    if r < g.p_snapshot + g.p_restart {
        return Op::Restart;
    }
    if r < g.p_snapshot + g.p_restart + g.p_flush {
        return Op::Flush;
    }
    let id_any = |rng: &mut Rng| rng.below(g.n_ids);
    let id_live = |rng: &mut Rng| -> u64 {
        if live.is_empty() || rng.chance(0.15) {
            rng.below(g.n_ids)
        } else {
            let v: Vec<u64> = live.iter().copied().collect();
            *rng.pick(&v)
        }
    };
    match rng.below(100) {
        0..=44 => Op::Insert {
            id: if rng.chance(0.5) { id_live(rng) } else { id_any(rng) },
            vec: gen_vec(rng, g.dim, g.metric),
            meta: gen_meta(rng),
        },
        45..=64 => Op::Delete { id: id_live(rng) },
        65..=76 => {
            let n = rng.range(1, 4);
            let mut ids: Vec<u64> = (0..n).map(|_| id_live(rng)).collect();
            if rng.chance(0.4) && !ids.is_empty() {
                let d = ids[0];
                ids.push(d); // duplicate inside the batch, adjacent or not
                if rng.chance(0.5) {
                    let other = id_live(rng);
                    ids.insert(1, other);
                }
            }
            Op::BatchDelete { ids }
        }
        _ => Op::UpdateMeta {
            id: id_live(rng),
            meta: gen_meta(rng),
            merge: rng.chance(0.5),
        },
    }
}

// ---------------------------------------------------------------------------------------------
// engine wrapper

#[derive(Clone, Debug)]
pub struct EngCfg {
    pub dim: usize,
    pub metric: DistanceMetric,
    pub capacity: usize,
    pub snapshot_interval: usize,
    pub max_wal: u64,
    pub fsync: FsyncPolicy,
    pub tiered: bool,
    pub hot_soft: usize,
    pub hot_hard: usize,
}

impl EngCfg {
    pub fn to_json(&self) -> Value {
        json!({"dim": self.dim, "metric": metric_name(self.metric), "capacity": self.capacity,
               "snapshot_interval": self.snapshot_interval, "max_wal": self.max_wal,
               "fsync": format!("{:?}", self.fsync), "tiered": self.tiered,
               "hot_soft": self.hot_soft, "hot_hard": self.hot_hard})
    }
    pub fn tiered_config(&self, dir: Option<&Path>) -> TieredEngineConfig {
        TieredEngineConfig {
            hot_tier_max_size: self.hot_soft,
            hot_tier_hard_limit: self.hot_hard,
            hot_tier_max_age: std::time::Duration::from_secs(3600),
            hnsw_max_elements: self.capacity,
            embedding_dimension: self.dim,
            hnsw_distance: self.metric,
            data_dir: dir.map(|d| d.to_string_lossy().to_string()),
            fsync_policy: self.fsync,
            snapshot_interval: self.snapshot_interval,
            max_wal_size_bytes: self.max_wal,
            flush_interval: std::time::Duration::from_secs(3600),
            ..Default::default()
        }
    }
}

pub enum Eng {
    Backend(HnswBackend),
    Tiered(Box<TieredEngine>),
}

impl Eng {
    pub fn create(cfg: &EngCfg, dir: &Path) -> anyhow::Result<Eng> {
        if cfg.tiered {
            let e = TieredEngine::new(
                Box::new(LruCacheStrategy::new(4)),
                Arc::new(QueryHashCache::new(8, 1.0)),
                Vec::new(),
                Vec::new(),
                cfg.tiered_config(Some(dir)),
            )?;
            Ok(Eng::Tiered(Box::new(e)))
        } else {
            Ok(Eng::Backend(HnswBackend::with_persistence(
                cfg.dim,
                cfg.metric,
                Vec::new(),
                Vec::new(),
                cfg.capacity,
                dir,
                cfg.fsync,
                cfg.snapshot_interval,
                cfg.max_wal,
            )?))
        }
    }
    pub fn recover(cfg: &EngCfg, dir: &Path) -> anyhow::Result<Eng> {
        if cfg.tiered {
            let e = TieredEngine::recover(
                Box::new(LruCacheStrategy::new(4)),
                Arc::new(QueryHashCache::new(8, 1.0)),
                dir,
                cfg.tiered_config(Some(dir)),
            )?;
            Ok(Eng::Tiered(Box::new(e)))
        } else {
            Ok(Eng::Backend(recover_backend(cfg, dir)?))
        }
    }
    pub fn cold(&self) -> &HnswBackend {
        match self {
            Eng::Backend(b) => b,
            Eng::Tiered(t) => t.cold_tier(),
        }
    }
    pub fn insert(&self, id: u64, v: Vec<f32>, m: &Meta) -> anyhow::Result<()> {
        match self {
            Eng::Backend(b) => b.insert(id, v, to_hm(m)),
            Eng::Tiered(t) => t.insert(id, v, to_hm(m)),
        }
    }
    pub fn delete(&self, id: u64) -> anyhow::Result<bool> {
        match self {
            Eng::Backend(b) => b.delete(id),
            Eng::Tiered(t) => t.delete(id),
        }
    }
    pub fn batch_delete(&self, ids: &[u64]) -> anyhow::Result<u64> {
        match self {
            Eng::Backend(b) => b.batch_delete(ids),
            Eng::Tiered(t) => t.batch_delete(ids),
        }
    }
    pub fn update_metadata(&self, id: u64, m: &Meta, merge: bool) -> anyhow::Result<bool> {
        match self {
            Eng::Backend(b) => b.update_metadata(id, to_hm(m), merge),
            Eng::Tiered(t) => t.update_metadata(id, to_hm(m), merge),
        }
    }
    pub fn snapshot(&self) -> anyhow::Result<()> {
        self.cold().create_snapshot()
    }
    pub fn flush(&self) -> anyhow::Result<()> {
        if let Eng::Tiered(t) = self {
            t.flush_hot_tier(true)?;
        }
        Ok(())
    }
    /// point read through the most user-facing path available
    pub fn read(&self, id: u64) -> Option<(Vec<f32>, Meta)> {
        match self {
            Eng::Backend(b) => {
                let v = b.fetch_document(id);
                let m = b.fetch_metadata(id);
                match (v, m) {
                    (Some(v), Some(m)) => Some((v, from_hm(&m))),
                    (None, None) => None,
                    (v, m) => Some((
                        v.unwrap_or_else(|| vec![f32::NAN]),
                        m.map(|m| from_hm(&m)).unwrap_or_else(|| {
                            let mut x = Meta::new();
                            x.insert("__MISSING_META__".into(), "1".into());
                            x
                        }),
                    )),
                }
            }
            Eng::Tiered(t) => t
                .get_document_with_metadata(id)
                .map(|(v, m)| (v, from_hm(&m))),
        }
    }
}

pub fn recover_backend(cfg: &EngCfg, dir: &Path) -> anyhow::Result<HnswBackend> {
    HnswBackend::recover(
        cfg.dim,
        cfg.metric,
        dir,
        cfg.capacity,
        cfg.fsync,
        cfg.snapshot_interval,
        cfg.max_wal,
        MetricsCollector::new(),
    )
}

/// Check that what the engine stored for an acknowledged insert is what the API promises:
/// the input itself (Euclidean, or already-unit input) or its L2 normalisation.
pub fn stored_is_plausible(metric: DistanceMetric, input: &[f32], stored: &[f32]) -> bool {
    if input.len() != stored.len() {
        return false;
    }
    if !normalizes(metric) {
        return bits(input) == bits(stored);
    }
    let n2: f64 = input.iter().map(|x| (*x as f64) * (*x as f64)).sum();
    if (0.98..=1.02).contains(&n2) && (n2 - 1.0).abs() < 1e-4 {
        return bits(input) == bits(stored);
    }
    let n = n2.sqrt();
    input
        .iter()
        .zip(stored.iter())
        .all(|(i, s)| ((*i as f64) / n - (*s as f64)).abs() <= 1e-5)
}

impl Model {
    /// Apply an op that the engine acknowledged. For inserts the stored bits are passed in
    /// (learned by read-back right after the ack).
    pub fn apply_insert(&mut self, id: u64, stored_bits: Vec<u32>, meta: Meta) {
        self.docs.insert(
            id,
            Doc {
                bits: stored_bits,
                meta,
            },
        );
    }
    pub fn apply_delete(&mut self, id: u64) -> bool {
        self.docs.remove(&id).is_some()
    }
    pub fn apply_update(&mut self, id: u64, meta: &Meta, merge: bool) -> bool {
        if let Some(d) = self.docs.get_mut(&id) {
            if merge {
                for (k, v) in meta {
                    d.meta.insert(k.clone(), v.clone());
                }
            } else {
                d.meta = meta.clone();
            }
            true
        } else {
            false
        }
    }
    pub fn live(&self) -> BTreeSet<u64> {
        self.docs.keys().copied().collect()
    }
    pub fn to_json(&self) -> Value {
        Value::Object(
            self.docs
                .iter()
                .map(|(k, d)| (k.to_string(), json!({"bits": d.bits, "meta": d.meta})))
                .collect(),
        )
    }
}

/// Read the whole collection out of a cold-tier backend through its public API.
pub fn census_backend(b: &HnswBackend, universe: &[u64]) -> Model {
    let mut m = Model::default();
    let mut ids: BTreeSet<u64> = b.scan(|_| true).into_iter().collect();
    for u in universe {
        if b.exists(*u) {
            ids.insert(*u);
        }
    }
    for id in ids {
        let v = b.fetch_document(id);
        let md = b.fetch_metadata(id);
        if v.is_none() && md.is_none() {
            continue;
        }
        m.docs.insert(
            id,
            Doc {
                bits: v.map(|v| bits(&v)).unwrap_or_else(|| vec![0xDEAD_BEEF]),
                meta: md.map(|m| from_hm(&m)).unwrap_or_else(|| {
                    let mut x = Meta::new();
                    x.insert("__MISSING_META__".into(), "1".into());
                    x
                }),
            },
        );
    }
    m
}

/// Differences between two models (empty = equal); bounded output.
pub fn diff_models(expected: &Model, actual: &Model) -> Vec<String> {
    let mut out = Vec::new();
    let ids: BTreeSet<u64> = expected
        .docs
        .keys()
        .chain(actual.docs.keys())
        .copied()
        .collect();
    for id in ids {
        match (expected.docs.get(&id), actual.docs.get(&id)) {
            (Some(_), None) => out.push(format!("id {}: expected present, actual missing", id)),
            (None, Some(_)) => out.push(format!("id {}: expected absent, actual present", id)),
            (Some(e), Some(a)) => {
                if e.bits != a.bits {
                    out.push(format!(
                        "id {}: vector bits differ expected {:?} actual {:?}",
                        id,
                        unbits(&e.bits),
                        unbits(&a.bits)
                    ));
                }
                if e.meta != a.meta {
                    out.push(format!(
                        "id {}: metadata differ expected {:?} actual {:?}",
                        id, e.meta, a.meta
                    ));
                }
            }
            (None, None) => {}
        }
        if out.len() >= 8 {
            break;
        }
    }
    out
}

/// ids on which two models differ
pub fn diff_ids(a: &Model, b: &Model) -> BTreeSet<u64> {
    a.docs
        .keys()
        .chain(b.docs.keys())
        .copied()
        .filter(|k| a.docs.get(k) != b.docs.get(k))
        .collect()
}

/// Shape invariants (S) of a cold-tier backend at a quiescent point, public API only.
pub fn shape_invariants(b: &HnswBackend) -> Vec<String> {
    use kyrodb_engine::proto::{metadata_filter::FilterType, AndFilter, MetadataFilter};
    let mut errs = Vec::new();
    let scan: Vec<u64> = b.scan(|_| true);
    let set: BTreeSet<u64> = scan.iter().copied().collect();
    if set.len() != scan.len() {
        errs.push(format!("scan returned duplicate ids: {:?}", scan));
    }
    if b.len() != set.len() {
        errs.push(format!("len()={} but scan has {} ids", b.len(), set.len()));
    }
    let all = MetadataFilter {
        filter_type: Some(FilterType::AndFilter(AndFilter { filters: vec![] })),
    };
    let via_index: Vec<u64> = b.ids_for_metadata_filter(&all);
    let iset: BTreeSet<u64> = via_index.iter().copied().collect();
    if iset.len() != via_index.len() {
        errs.push(format!("metadata index returned duplicate ids: {:?}", via_index));
    }
    if iset != set {
        errs.push(format!(
            "alive set of metadata index {:?} != scan ids {:?}",
            iset, set
        ));
    }
    for id in &set {
        match b.fetch_document_with_coherence(*id) {
            None => errs.push(format!("live id {} has no document", id)),
            Some((v, tok)) => {
                if tok.digest != digest_embedding(&v) {
                    errs.push(format!("id {}: coherence digest != digest(vector)", id));
                }
                if tok.version < 1 {
                    errs.push(format!("id {}: coherence version {} < 1", id, tok.version));
                }
                if b.current_coherence_token(*id) != Some(tok) {
                    errs.push(format!("id {}: current_coherence_token disagrees", id));
                }
            }
        }
        if b.fetch_metadata(*id).is_none() {
            errs.push(format!("live id {} has no metadata", id));
        }
        if !b.exists(*id) {
            errs.push(format!("live id {} does not 'exist'", id));
        }
    }
    errs
}

/// Summary of the on-disk log state for checker L.
#[derive(Clone, Debug, Default)]
pub struct LogState {
    pub snapshot_seq: u64,
    pub max_seq: u64,
    pub segments: usize,
    pub entries: usize,
}

/// Log consistency checker (L): reads MANIFEST, every listed WAL segment and the published
/// snapshot with the crate's own readers.
pub fn check_logs(dir: &Path) -> Result<LogState, Vec<String>> {
    let mut errs = Vec::new();
    let manifest = match Manifest::load(dir.join("MANIFEST")) {
        Ok(m) => m,
        Err(e) => return Err(vec![format!("MANIFEST unreadable: {:#}", e)]),
    };
    let mut st = LogState::default();
    let mut last_seq = 0u64;
    st.segments = manifest.wal_segments.len();
    let mut seen = BTreeSet::new();
    for seg in &manifest.wal_segments {
        if !seen.insert(seg.clone()) {
            errs.push(format!("segment {} listed twice in MANIFEST", seg));
        }
        let p = dir.join(seg);
        if !p.exists() {
            errs.push(format!("MANIFEST lists missing segment {}", seg));
            continue;
        }
        match WalReader::open(&p).and_then(|mut r| {
            let e = r.read_all()?;
            Ok((e, r.corrupted_entries()))
        }) {
            Ok((entries, corrupted)) => {
                if corrupted > 0 {
                    errs.push(format!("segment {} has {} corrupted frames", seg, corrupted));
                }
                for e in entries {
                    st.entries += 1;
                    if e.seq_no == 0 {
                        errs.push(format!("segment {}: entry with seq_no 0", seg));
                        continue;
                    }
                    if e.seq_no <= last_seq {
                        errs.push(format!(
                            "segment {}: seq_no {} not above previous {}",
                            seg, e.seq_no, last_seq
                        ));
                    }
                    last_seq = last_seq.max(e.seq_no);
                }
            }
            Err(e) => errs.push(format!("segment {} unreadable: {:#}", seg, e)),
        }
    }
    st.max_seq = last_seq;
    match (&manifest.latest_snapshot, manifest.latest_snapshot_wal_seq) {
        (Some(name), seq) => match Snapshot::load(dir.join(name)) {
            Ok(s) => {
                if Some(s.last_wal_seq) != seq {
                    errs.push(format!(
                        "snapshot {} last_wal_seq {} != manifest latest_snapshot_wal_seq {:?}",
                        name, s.last_wal_seq, seq
                    ));
                }
                st.snapshot_seq = s.last_wal_seq;
                st.max_seq = st.max_seq.max(s.last_wal_seq);
            }
            Err(e) => errs.push(format!("published snapshot {} does not load: {:#}", name, e)),
        },
        (None, Some(seq)) => errs.push(format!(
            "manifest has latest_snapshot_wal_seq {} but no snapshot",
            seq
        )),
        (None, None) => {}
    }
    if errs.is_empty() {
        Ok(st)
    } else {
        Err(errs)
    }
}
