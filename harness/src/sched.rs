//! Lock-event monitor built on the hooks of the vendored lock_api: per-thread held sets,
//! lock-order graph, recursive-read candidates, directed pause injection at lock events,
//! seeded random delays, and deadlock ground truth from parking_lot's own detector.
//!
//! The monitor's state is thread-local or behind std (not parking_lot) mutexes and is updated
//! inside the hook call that reports the transition, so it cannot race with what it shadows and
//! cannot recurse into the hooks.
#![allow(dead_code)]

use std::cell::RefCell;
use std::collections::{BTreeMap, BTreeSet, HashMap};
use std::panic::Location;
use std::sync::atomic::{AtomicBool, AtomicU64, AtomicUsize, Ordering};
use std::sync::{Arc, Mutex, OnceLock};
use std::time::{Duration, Instant};

pub const MUTEX: u8 = 0;
pub const READ: u8 = 1;
pub const WRITE: u8 = 2;
pub const UPGRADABLE: u8 = 3;
pub const READ_RECURSIVE: u8 = 4;
pub const UPGRADE: u8 = 5;

pub fn mode_name(m: u8) -> &'static str {
    ["mutex", "read", "write", "upgradable", "read_recursive", "upgrade"][m as usize % 6]
}

#[derive(Clone, Debug)]
struct Held {
    addr: usize,
    mode: u8,
    site: String,
}

struct ThreadState {
    id: usize,
    label: String,
    held: Vec<Held>,
    events: usize,
}

thread_local! {
    static TS: RefCell<Option<ThreadState>> = const { RefCell::new(None) };
}

#[derive(Clone, Debug)]
pub struct Edge {
    pub from_site: String,
    pub to_site: String,
    pub from_mode: u8,
    pub to_mode: u8,
    pub op: String,
    pub event_index: usize,
    pub from_addr: usize,
    pub to_addr: usize,
}

#[derive(Default)]
struct Global {
    /// lock-order edges keyed by (from_addr, to_addr): first witness kept
    edges: HashMap<(usize, usize), Edge>,
    /// same-thread read-after-read on one RwLock (recursive-read hazard under writer preference)
    recursive_reads: HashMap<(String, String), Edge>,
    lock_events: u64,
    /// threads currently between before() and after() of a blocking acquisition: id -> since
    waiting: HashMap<usize, Instant>,
    done: BTreeSet<usize>,
    live: BTreeSet<usize>,
}

fn global() -> &'static Mutex<Global> {
    static G: OnceLock<Mutex<Global>> = OnceLock::new();
    G.get_or_init(|| Mutex::new(Global::default()))
}

/// pause plan: thread `thread` pauses before its `event`-th lock event
#[derive(Clone, Copy, Debug)]
pub struct Pause {
    pub thread: usize,
    pub event: usize,
    pub max_ms: u64,
}

static PAUSE_THREAD: AtomicUsize = AtomicUsize::new(usize::MAX);
static PAUSE_EVENT: AtomicUsize = AtomicUsize::new(usize::MAX);
static PAUSE_MAX_MS: AtomicU64 = AtomicU64::new(0);
static PAUSE2_THREAD: AtomicUsize = AtomicUsize::new(usize::MAX);
static PAUSE2_EVENT: AtomicUsize = AtomicUsize::new(usize::MAX);
static PAUSES_TAKEN: AtomicU64 = AtomicU64::new(0);
/// random delay mode: probability (per mille) and seed
static JITTER_PERMILLE: AtomicU64 = AtomicU64::new(0);
static JITTER_STATE: AtomicU64 = AtomicU64::new(0x9E3779B97F4A7C15);
/// delay injection for threads the run did NOT register (the engine's own blocking-pool search workers):
/// permille of lock acquisitions at which such a thread sleeps 0.2-3 ms, so that workers outlive their
/// request's stage timeout and keep their worker permit (worker-permit saturation exits)
static WORKER_DELAY_PERMILLE: AtomicU64 = AtomicU64::new(0);
static WORKER_DELAYS_TAKEN: AtomicU64 = AtomicU64::new(0);
static INSTALLED: AtomicBool = AtomicBool::new(false);

fn site_of(loc: &'static Location<'static>) -> String {
    let f = loc.file();
    let short = f.rsplit("/src/").next().unwrap_or(f);
    format!("{}:{}", short, loc.line())
}

/// certain self-deadlocks seen by the monitor (a thread blocking on a non-reentrant lock it holds
/// itself in a conflicting mode): parking_lot's detector does not report a one-thread cycle
static SELF_DEADLOCKS: Mutex<Vec<String>> = Mutex::new(Vec::new());

pub fn take_self_deadlocks() -> Vec<String> {
    std::mem::take(&mut *SELF_DEADLOCKS.lock().unwrap())
}

fn hook_before(addr: usize, mode: u8, blocking: bool, loc: &'static Location<'static>) {
    let mut pause_for: Option<(usize, u64)> = None;
    let mut jitter = false;
    let mut self_deadlock: Option<String> = None;
    let mut registered = false;
    let r = TS.try_with(|ts| {
        let mut b = ts.borrow_mut();
        let Some(t) = b.as_mut() else { return };
        registered = true;
        t.events += 1;
        let site = site_of(loc);
        let mut g = global().lock().unwrap();
        g.lock_events += 1;
        for h in &t.held {
            if h.addr == addr && blocking {
                let exclusive_held = h.mode == WRITE || h.mode == MUTEX;
                let wants_exclusive = mode == WRITE || mode == MUTEX;
                let shared_held = h.mode == READ || h.mode == UPGRADABLE;
                if (exclusive_held && mode != UPGRADE) || (shared_held && wants_exclusive) {
                    self_deadlock = Some(format!("self-deadlock: {} while holding {} of the same lock ({} -> {}) in {}", mode_name(mode), mode_name(h.mode), h.site, site, t.label));
                }
            }
            if h.addr != addr {
                g.edges.entry((h.addr, addr)).or_insert_with(|| Edge {
                    from_site: h.site.clone(),
                    to_site: site.clone(),
                    from_mode: h.mode,
                    to_mode: mode,
                    op: t.label.clone(),
                    event_index: t.events,
                    from_addr: h.addr,
                    to_addr: addr,
                });
            } else if (h.mode == READ || h.mode == UPGRADABLE) && mode == READ {
                g.recursive_reads.entry((h.site.clone(), site.clone())).or_insert_with(|| Edge {
                    from_site: h.site.clone(),
                    to_site: site.clone(),
                    from_mode: h.mode,
                    to_mode: mode,
                    op: t.label.clone(),
                    event_index: t.events,
                    from_addr: addr,
                    to_addr: addr,
                });
            }
        }
        if blocking {
            g.waiting.insert(t.id, Instant::now());
        }
        drop(g);
        if (PAUSE_THREAD.load(Ordering::Relaxed) == t.id && PAUSE_EVENT.load(Ordering::Relaxed) == t.events)
            || (PAUSE2_THREAD.load(Ordering::Relaxed) == t.id && PAUSE2_EVENT.load(Ordering::Relaxed) == t.events)
        {
            pause_for = Some((t.id, PAUSE_MAX_MS.load(Ordering::Relaxed)));
        }
        if JITTER_PERMILLE.load(Ordering::Relaxed) > 0 {
            jitter = true;
        }
    });
    if r.is_ok() && !registered {
        let p = WORKER_DELAY_PERMILLE.load(Ordering::Relaxed);
        if p > 0 {
            let mut x = JITTER_STATE.fetch_add(0x9E3779B97F4A7C15, Ordering::Relaxed);
            x = (x ^ (x >> 30)).wrapping_mul(0xBF58476D1CE4E5B9);
            x = (x ^ (x >> 27)).wrapping_mul(0x94D049BB133111EB);
            x ^= x >> 31;
            if x % 1000 < p {
                WORKER_DELAYS_TAKEN.fetch_add(1, Ordering::Relaxed);
                std::thread::sleep(Duration::from_micros(200 + (x >> 20) % 2800));
            }
        }
        return;
    }
    if let Some(d) = self_deadlock {
        // the thread would block forever; record the witness and unwind instead (guards are released
        // by the unwinding, so the other threads of the run can finish)
        SELF_DEADLOCKS.lock().unwrap().push(d.clone());
        panic!("{}", d);
    }
    if let Some((me, max_ms)) = pause_for {
        PAUSES_TAKEN.fetch_add(1, Ordering::Relaxed);
        // while paused this thread is not "waiting for a lock"
        if let Ok(mut g) = global().lock() {
            g.waiting.remove(&me);
        }
        let t0 = Instant::now();
        loop {
            std::thread::sleep(Duration::from_micros(300));
            let g = global().lock().unwrap();
            // resume when every other live thread is done or has been blocked on a lock for > 3 ms
            let others_settled = g.live.iter().filter(|id| **id != me).all(|id| {
                g.done.contains(id) || g.waiting.get(id).map(|s| s.elapsed() > Duration::from_millis(3)).unwrap_or(false)
            });
            drop(g);
            if others_settled || t0.elapsed() > Duration::from_millis(max_ms) {
                break;
            }
        }
        if blocking {
            if let Ok(mut g) = global().lock() {
                g.waiting.insert(me, Instant::now());
            }
        }
    } else if jitter {
        let p = JITTER_PERMILLE.load(Ordering::Relaxed);
        let mut x = JITTER_STATE.fetch_add(0x9E3779B97F4A7C15, Ordering::Relaxed);
        x = (x ^ (x >> 30)).wrapping_mul(0xBF58476D1CE4E5B9);
        x = (x ^ (x >> 27)).wrapping_mul(0x94D049BB133111EB);
        x ^= x >> 31;
        if x % 1000 < p {
            if x & 0x1000 == 0 {
                std::thread::yield_now();
            } else {
                std::thread::sleep(Duration::from_micros(50 + (x >> 20) % 400));
            }
        }
    }
}

fn hook_after(addr: usize, mode: u8, ok: bool, loc: &'static Location<'static>) {
    let _ = TS.try_with(|ts| {
        let mut b = ts.borrow_mut();
        let Some(t) = b.as_mut() else { return };
        if let Ok(mut g) = global().lock() {
            g.waiting.remove(&t.id);
        }
        if !ok {
            return;
        }
        if mode == UPGRADE {
            if let Some(h) = t.held.iter_mut().rev().find(|h| h.addr == addr && h.mode == UPGRADABLE) {
                h.mode = WRITE;
            }
            return;
        }
        t.held.push(Held {
            addr,
            mode: if mode == READ_RECURSIVE { READ } else { mode },
            site: site_of(loc),
        });
    });
}

fn hook_release(addr: usize, mode: u8) {
    let _ = TS.try_with(|ts| {
        let mut b = ts.borrow_mut();
        let Some(t) = b.as_mut() else { return };
        if let Some(pos) = t.held.iter().rposition(|h| h.addr == addr && h.mode == mode) {
            t.held.remove(pos);
        } else if let Some(pos) = t.held.iter().rposition(|h| h.addr == addr) {
            t.held.remove(pos);
        }
    });
}

pub fn install() {
    if !INSTALLED.swap(true, Ordering::SeqCst) {
        lock_api::verif::set_hooks(hook_before, hook_after, hook_release);
    }
}

/// register the current thread as monitored
pub fn register(id: usize, label: &str) {
    TS.with(|ts| {
        *ts.borrow_mut() = Some(ThreadState {
            id,
            label: label.to_string(),
            held: Vec::new(),
            events: 0,
        })
    });
    let mut g = global().lock().unwrap();
    g.live.insert(id);
    g.done.remove(&id);
    g.waiting.remove(&id);
}

pub fn set_label(label: &str) {
    let _ = TS.try_with(|ts| {
        if let Some(t) = ts.borrow_mut().as_mut() {
            t.label = label.to_string();
        }
    });
}

/// events seen so far by the current thread
pub fn my_events() -> usize {
    TS.try_with(|ts| ts.borrow().as_ref().map(|t| t.events).unwrap_or(0)).unwrap_or(0)
}

pub fn mark_done() {
    let id = TS.try_with(|ts| ts.borrow().as_ref().map(|t| t.id)).ok().flatten();
    if let Some(id) = id {
        let mut g = global().lock().unwrap();
        g.done.insert(id);
        g.waiting.remove(&id);
    }
}

pub fn unregister() {
    let id = TS.try_with(|ts| ts.borrow_mut().take().map(|t| t.id)).ok().flatten();
    if let Some(id) = id {
        let mut g = global().lock().unwrap();
        g.live.remove(&id);
        g.done.remove(&id);
        g.waiting.remove(&id);
    }
}

/// forget thread bookkeeping of a finished (or abandoned) run; the graph is kept
pub fn reset_run() {
    let mut g = global().lock().unwrap();
    g.live.clear();
    g.done.clear();
    g.waiting.clear();
    drop(g);
    set_pause(None, None);
}

pub fn set_pause(p: Option<Pause>, p2: Option<Pause>) {
    match p {
        Some(p) => {
            PAUSE_MAX_MS.store(p.max_ms, Ordering::SeqCst);
            PAUSE_EVENT.store(p.event, Ordering::SeqCst);
            PAUSE_THREAD.store(p.thread, Ordering::SeqCst);
        }
        None => {
            PAUSE_THREAD.store(usize::MAX, Ordering::SeqCst);
            PAUSE_EVENT.store(usize::MAX, Ordering::SeqCst);
        }
    }
    match p2 {
        Some(p) => {
            PAUSE2_EVENT.store(p.event, Ordering::SeqCst);
            PAUSE2_THREAD.store(p.thread, Ordering::SeqCst);
        }
        None => {
            PAUSE2_THREAD.store(usize::MAX, Ordering::SeqCst);
            PAUSE2_EVENT.store(usize::MAX, Ordering::SeqCst);
        }
    }
}

pub fn set_jitter(permille: u64, seed: u64) {
    JITTER_STATE.store(seed | 1, Ordering::SeqCst);
    JITTER_PERMILLE.store(permille, Ordering::SeqCst);
}

pub fn set_worker_delay(permille: u64) {
    WORKER_DELAY_PERMILLE.store(permille, Ordering::SeqCst);
}

pub fn worker_delays_taken() -> u64 {
    WORKER_DELAYS_TAKEN.load(Ordering::Relaxed)
}

pub fn pauses_taken() -> u64 {
    PAUSES_TAKEN.load(Ordering::Relaxed)
}

pub fn lock_events() -> u64 {
    global().lock().unwrap().lock_events
}

pub fn clear_graph() {
    let mut g = global().lock().unwrap();
    g.edges.clear();
    g.recursive_reads.clear();
}

pub fn edges() -> Vec<Edge> {
    global().lock().unwrap().edges.values().cloned().collect()
}

pub fn recursive_reads() -> Vec<Edge> {
    global().lock().unwrap().recursive_reads.values().cloned().collect()
}

/// cycles of length 2 and 3 in the instance-level lock-order graph (candidates only)
pub fn cycles() -> Vec<Vec<Edge>> {
    let g = global().lock().unwrap();
    let mut out = Vec::new();
    let mut adj: BTreeMap<usize, Vec<usize>> = BTreeMap::new();
    for (a, b) in g.edges.keys() {
        adj.entry(*a).or_default().push(*b);
    }
    let mut seen: BTreeSet<Vec<usize>> = BTreeSet::new();
    for (&a, bs) in &adj {
        for &b in bs {
            if g.edges.contains_key(&(b, a)) {
                let mut k = vec![a, b];
                k.sort();
                if seen.insert(k) {
                    out.push(vec![g.edges[&(a, b)].clone(), g.edges[&(b, a)].clone()]);
                }
            }
            if let Some(cs) = adj.get(&b) {
                for &c in cs {
                    if c != a && c != b && g.edges.contains_key(&(c, a)) {
                        let mut k = vec![a, b, c];
                        k.sort();
                        if seen.insert(k) {
                            out.push(vec![g.edges[&(a, b)].clone(), g.edges[&(b, c)].clone(), g.edges[&(c, a)].clone()]);
                        }
                    }
                }
            }
        }
    }
    out
}

// ---------------------------------------------------------------------------------------------
// running a set of threads under the monitor

pub struct RunOutcome {
    pub completed: bool,
    /// formatted deadlock report (engine frames per thread) when parking_lot's detector fired
    pub deadlock: Option<Vec<Vec<String>>>,
    pub wall_ms: u128,
}

/// frames of a backtrace that belong to the engine, innermost first, de-duplicated
fn engine_frames(bt: &str) -> Vec<String> {
    let mut out = Vec::new();
    for line in bt.lines() {
        let l = line.trim();
        if let Some(pos) = l.find("kyrodb_engine::") {
            let mut name: String = l[pos..].chars().take_while(|c| !c.is_whitespace() && *c != '"' && *c != ',').collect();
            // strip the trailing hash
            if let Some(h) = name.rfind("::h") {
                if name.len() - h == 19 {
                    name.truncate(h);
                }
            }
            if !name.contains("{{closure}}") && out.last() != Some(&name) && !out.contains(&name) {
                out.push(name);
            }
        }
    }
    out
}

pub fn check_deadlock_now() -> Option<Vec<Vec<String>>> {
    let d = parking_lot::deadlock::check_deadlock();
    if d.is_empty() {
        return None;
    }
    let mut report = Vec::new();
    for cycle in d {
        for t in cycle {
            let bt = format!("{:?}", t.backtrace());
            report.push(engine_frames(&bt).into_iter().take(6).collect());
        }
    }
    Some(report)
}

/// Run closures on fresh registered threads (ids 0..n). Returns when all finished, when the
/// detector reports a deadlock (threads are then leaked), or at the watchdog (inconclusive).
pub fn run_threads(labels: &[String], bodies: Vec<Box<dyn FnOnce() + Send + 'static>>, watchdog: Duration) -> RunOutcome {
    install();
    let t0 = Instant::now();
    let n = bodies.len();
    let finished = Arc::new(AtomicUsize::new(0));
    let start = Arc::new(std::sync::Barrier::new(n));
    // register ids before any thread starts so that a paused thread sees all its peers
    {
        let mut g = global().lock().unwrap();
        for id in 0..n {
            g.live.insert(id);
            g.done.remove(&id);
        }
    }
    let mut handles = Vec::new();
    for (id, body) in bodies.into_iter().enumerate() {
        let label = labels.get(id).cloned().unwrap_or_default();
        let finished = finished.clone();
        let start = start.clone();
        handles.push(std::thread::spawn(move || {
            register(id, &label);
            start.wait();
            let r = std::panic::catch_unwind(std::panic::AssertUnwindSafe(body));
            mark_done();
            finished.fetch_add(1, Ordering::SeqCst);
            // keep the thread-local state until the run is torn down
            let _ = r;
        }));
    }
    let mut deadlock = None;
    let mut last_check = Instant::now();
    loop {
        if finished.load(Ordering::SeqCst) == n {
            break;
        }
        if last_check.elapsed() > Duration::from_millis(15) {
            last_check = Instant::now();
            if let Some(d) = check_deadlock_now() {
                deadlock = Some(d);
                break;
            }
        }
        if t0.elapsed() > watchdog {
            break;
        }
        std::thread::sleep(Duration::from_micros(200));
    }
    let selfd = take_self_deadlocks();
    if deadlock.is_none() && !selfd.is_empty() {
        deadlock = Some(selfd.into_iter().map(|d| vec![d]).collect());
    }
    let completed = finished.load(Ordering::SeqCst) == n;
    if completed {
        for h in handles {
            let _ = h.join();
        }
    } // else: leak the stuck threads
    reset_run();
    RunOutcome {
        completed,
        deadlock,
        wall_ms: t0.elapsed().as_millis(),
    }
}
