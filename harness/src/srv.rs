//! Driver for the real `kyrodb_server` binary: config / key-file generation, start, readiness,
//! SIGTERM / SIGKILL, restart on the same data directory, a tonic client per tenant key and a
//! raw-TCP HTTP client for the observability endpoints.
#![allow(dead_code)]

use crate::util::*;
use kyrodb_engine::proto::kyro_db_service_client::KyroDbServiceClient;
use kyrodb_engine::proto::*;
use std::collections::HashMap;
use std::io::{Read, Write};
use std::path::PathBuf;
use std::process::{Child, Command, Stdio};
use std::sync::Arc;
use std::time::{Duration, Instant};
use tonic::service::interceptor::InterceptedService;
use tonic::transport::Channel;
use tonic::{Request, Status};

#[derive(Clone, Debug)]
pub struct TenantSpec {
    pub id: String,
    pub max_vectors: usize,
    pub max_qps: u32,
    pub enabled: bool,
    pub admin: bool,
}

#[derive(Clone, Debug)]
pub struct SrvCfg {
    pub dim: usize,
    pub distance: &'static str,
    pub tenants: Vec<TenantSpec>,
    pub rate_limit: Option<(usize, usize)>,
    pub fsync: &'static str,
    pub wal_flush_ms: u64,
    pub snapshot_interval: u64,
    pub max_wal: u64,
    pub cache_capacity: usize,
    pub query_cache_threshold: f32,
    pub ef_search: usize,
    pub max_elements: usize,
    /// tenants that hold a SECOND enabled key (rotation overlap)
    pub second_key_for: Vec<String>,
}

impl Default for SrvCfg {
    fn default() -> Self {
        SrvCfg {
            dim: 4,
            distance: "cosine",
            tenants: vec![],
            rate_limit: None,
            fsync: "full",
            wal_flush_ms: 100,
            snapshot_interval: 1000,
            max_wal: 1 << 20,
            cache_capacity: 64,
            query_cache_threshold: 0.52,
            ef_search: 400,
            max_elements: 100_000,
            second_key_for: Vec::new(),
        }
    }
}

/// the tenant's second key (only valid when the tenant is listed in `SrvCfg::second_key_for`)
pub fn second_key_for(tenant: &str) -> String {
    let k = key_for(&format!("{}-rotated", tenant));
    format!("kyro_{}_{}", tenant, &k[k.len() - 32..])
}

pub fn key_for(tenant: &str) -> String {
    // kyro_<tenant>_<32+ alphanumeric>
    let mut h = hash64(&tenant);
    let mut secret = String::new();
    while secret.len() < 32 {
        secret.push_str(&format!("{:016x}", h));
        h = h.wrapping_mul(0x9E3779B97F4A7C15).rotate_left(17) ^ 0xABCDEF;
    }
    format!("kyro_{}_{}", tenant, &secret[..32])
}

/// A free loopback port from a range owned by this process (16 shard processes start servers
/// concurrently; an ephemeral port picked by bind(0) can be grabbed by another shard's server between
/// the probe and our child's bind, and a harness that then talks to the WRONG server reports phantom
/// violations). Start-up additionally verifies the server's identity (GetConfig.data_dir).
fn free_port() -> u16 {
    use std::sync::atomic::{AtomicU32, Ordering};
    static NEXT: AtomicU32 = AtomicU32::new(0);
    // below the kernel's ephemeral range (32768-60999): an outgoing connection of any shard can then
    // never own (or self-connect to) a port a server wants to bind
    let base = 10_000 + (std::process::id() % 110) * 200;
    for _ in 0..400 {
        let n = NEXT.fetch_add(1, Ordering::SeqCst) % 200;
        let port = (base + n) as u16;
        if std::net::TcpListener::bind(("127.0.0.1", port)).is_ok() {
            return port;
        }
    }
    let l = std::net::TcpListener::bind("127.0.0.1:0").expect("bind");
    l.local_addr().unwrap().port()
}

pub struct Srv {
    pub child: Option<Child>,
    pub grpc_port: u16,
    pub http_port: u16,
    pub scratch: Scratch,
    pub cfg: SrvCfg,
    pub bin: PathBuf,
    pub rt: Arc<tokio::runtime::Runtime>,
    pub preload: Option<String>,
    pub extra_env: Vec<(String, String)>,
}

impl Srv {
    pub fn data_dir(&self) -> PathBuf {
        self.scratch.sub("data")
    }
    pub fn config_path(&self) -> PathBuf {
        self.scratch.sub("server.toml")
    }
    fn write_files(&self) {
        let keys = self.scratch.sub("api_keys.yaml");
        let mut y = String::from("api_keys:\n");
        for t in &self.cfg.tenants {
            y.push_str(&format!(
                "  - key: {}\n    tenant_id: {}\n    tenant_name: Tenant {}\n    max_qps: {}\n    max_vectors: {}\n    enabled: {}\n    is_admin: {}\n",
                key_for(&t.id), t.id, t.id, t.max_qps, t.max_vectors, t.enabled, t.admin
            ));
            if self.cfg.second_key_for.contains(&t.id) {
                y.push_str(&format!(
                    "  - key: {}\n    tenant_id: {}\n    tenant_name: Tenant {}\n    max_qps: {}\n    max_vectors: {}\n    enabled: {}\n    is_admin: {}\n",
                    second_key_for(&t.id), t.id, t.id, t.max_qps, t.max_vectors, t.enabled, t.admin
                ));
            }
        }
        std::fs::write(&keys, y).expect("keys");
        let c = &self.cfg;
        let (rl_enabled, per, global) = match c.rate_limit {
            Some((p, g)) => (true, p, g),
            None => (false, 1000, 100_000),
        };
        let toml = format!(
            r#"[environment]
type = "production"

[server]
host = "127.0.0.1"
port = {gp}
http_port = {hp}
observability_auth = "disabled"

[auth]
enabled = true
api_keys_file = "{keys}"

[rate_limit]
enabled = {rl}
max_qps_per_connection = {per}
max_qps_global = {global}
burst_capacity = {per}

[persistence]
data_dir = "{data}"
wal_flush_interval_ms = {flush}
fsync_policy = "{fsync}"
snapshot_interval_mutations = {snap}
max_wal_size_bytes = {maxwal}
enable_recovery = true
allow_fresh_start_on_recovery_failure = false

[cache]
capacity = {cap}
strategy = "learned"
min_training_samples = {mts}
query_cache_capacity = 64
query_cache_similarity_threshold = {qthr}
enable_training_task = false

[hnsw]
max_elements = {maxel}
dimension = {dim}
distance = "{dist}"
ef_search = {ef}

[logging]
level = "error"
"#,
            gp = self.grpc_port,
            hp = self.http_port,
            keys = keys.display(),
            rl = rl_enabled,
            per = per,
            global = global,
            data = self.data_dir().display(),
            flush = c.wal_flush_ms,
            fsync = c.fsync,
            snap = c.snapshot_interval,
            maxwal = c.max_wal,
            cap = c.cache_capacity,
            mts = c.cache_capacity.min(100),
            qthr = c.query_cache_threshold,
            maxel = c.max_elements,
            dim = c.dim,
            dist = c.distance,
            ef = c.ef_search,
        );
        std::fs::write(self.config_path(), toml).expect("config");
    }

    pub fn new(cfg: SrvCfg, bin: &str, rt: Arc<tokio::runtime::Runtime>) -> Srv {
        Srv {
            child: None,
            grpc_port: free_port(),
            http_port: free_port(),
            scratch: Scratch::new("srv"),
            cfg,
            bin: PathBuf::from(bin),
            rt,
            preload: None,
            extra_env: Vec::new(),
        }
    }

    /// start (or restart) the server on the same data directory; waits for /ready
    pub fn start(&mut self) -> Result<(), String> {
        if self.child.is_some() {
            return Ok(());
        }
        for attempt in 0..4 {
            if attempt > 0 {
                // ports may have been grabbed in between: pick new ones
                self.grpc_port = free_port();
                self.http_port = free_port();
            }
            self.write_files();
            let mut cmd = Command::new(&self.bin);
            cmd.arg("--config").arg(self.config_path()).stdout(Stdio::null()).stderr(Stdio::null()).env_remove("KYRODB_CONFIG").env_remove("LD_PRELOAD");
            // debugging aid: VERIF_SRV_STDERR=<file> appends the server's stderr there (with backtraces)
            if let Ok(p) = std::env::var("VERIF_SRV_STDERR") {
                if let Ok(f) = std::fs::OpenOptions::new().create(true).append(true).open(p) {
                    cmd.stderr(f).env("RUST_BACKTRACE", "1");
                }
            }
            for (k, _) in std::env::vars() {
                if k.starts_with("KYRODB__") {
                    cmd.env_remove(k);
                }
            }
            if let Some(p) = &self.preload {
                cmd.env("LD_PRELOAD", p);
            }
            for (k, v) in &self.extra_env {
                cmd.env(k, v);
            }
            let mut child = cmd.spawn().map_err(|e| format!("spawn: {}", e))?;
            let t0 = Instant::now();
            let mut ready = false;
            while t0.elapsed() < Duration::from_secs(60) {
                if let Ok(Some(st)) = child.try_wait() {
                    // exited early (port clash or start-up refusal)
                    let _ = st;
                    break;
                }
                if let Some((200, _)) = self.http_get("/ready", None) {
                    // the gRPC listener binds right after
                    std::thread::sleep(Duration::from_millis(30));
                    if std::net::TcpStream::connect(("127.0.0.1", self.grpc_port)).is_ok() {
                        ready = true;
                        break;
                    }
                }
                std::thread::sleep(Duration::from_millis(20));
            }
            if ready {
                // identity: the server answering on our ports must be OUR child on OUR data directory
                let mine = matches!(child.try_wait(), Ok(None))
                    && match self.cfg.tenants.iter().find(|t| t.enabled) {
                        Some(t) => {
                            // the first real RPC also proves that the gRPC server serves (not only listens);
                            // retried for a few seconds because a loaded machine delays the accept loop
                            let mut verdict = true;
                            for _ in 0..24 {
                                match self.client(Some(key_for(&t.id))).and_then(|mut c| c.get_config().map_err(|e| e.to_string())) {
                                    Ok(cfg) => {
                                        verdict = cfg.data_dir == self.data_dir().to_string_lossy();
                                        break;
                                    }
                                    // no answer: cannot be a healthy foreign server (it would answer); the ports
                                    // come from this process's own range, so keep our live child
                                    Err(_) => std::thread::sleep(Duration::from_millis(250)),
                                }
                                if !matches!(child.try_wait(), Ok(None)) {
                                    break;
                                }
                            }
                            // a child that exited meanwhile (e.g. its gRPC bind failed) never was ready
                            verdict && matches!(child.try_wait(), Ok(None))
                        }
                        None => true,
                    };
                if mine {
                    self.child = Some(child);
                    return Ok(());
                }
                let exited = child.try_wait().ok().flatten();
                let _ = child.kill();
                let _ = child.wait();
                if attempt == 3 {
                    return Err(match exited {
                        Some(st) => format!("server exited during start-up with {:?}", st.code()),
                        None => "the server answering on the chosen ports is not this harness's child (port clash)".into(),
                    });
                }
                continue;
            }
            let exited = child.try_wait().ok().flatten();
            let _ = child.kill();
            let _ = child.wait();
            if let Some(st) = exited {
                if attempt == 3 {
                    return Err(format!("server exited during start-up with {:?}", st.code()));
                }
            } else {
                return Err("server did not become ready within 60 s".into());
            }
        }
        Err("server did not start".into())
    }

    /// how the (dead) child ended: "exit code N" or "signal N"; None while it is alive
    pub fn exit_status(&mut self) -> Option<String> {
        use std::os::unix::process::ExitStatusExt;
        match &mut self.child {
            Some(c) => match c.try_wait() {
                Ok(Some(st)) => Some(match (st.code(), st.signal()) {
                    (Some(c), _) => format!("exit code {}", c),
                    (None, Some(sg)) => format!("signal {}", sg),
                    _ => "unknown".to_string(),
                }),
                _ => None,
            },
            None => Some("already stopped by the harness".into()),
        }
    }

    /// the child was ended by SIGKILL / SIGTERM, i.e. by something outside the server itself
    pub fn killed_from_outside(&mut self) -> bool {
        matches!(self.exit_status().as_deref(), Some("signal 9") | Some("signal 15"))
    }

    pub fn alive(&mut self) -> bool {
        match &mut self.child {
            Some(c) => matches!(c.try_wait(), Ok(None)),
            None => false,
        }
    }

    pub fn kill9(&mut self) {
        if let Some(mut c) = self.child.take() {
            // Child::kill never signals a pid that has already been reaped (alive() reaps through
            // try_wait); a raw kill(pid) could hit a RECYCLED pid, i.e. another shard's server
            let _ = c.kill();
            let _ = c.wait();
        }
    }

    /// graceful stop; returns the exit code
    pub fn term(&mut self) -> Option<i32> {
        if let Some(mut c) = self.child.take() {
            // only signal a child that has not been reaped yet (a reaped pid may have been recycled)
            if let Ok(Some(st)) = c.try_wait() {
                return st.code();
            }
            unsafe {
                libc::kill(c.id() as i32, libc::SIGTERM);
            }
            let t0 = Instant::now();
            while t0.elapsed() < Duration::from_secs(30) {
                if let Ok(Some(st)) = c.try_wait() {
                    return st.code();
                }
                std::thread::sleep(Duration::from_millis(10));
            }
            let _ = c.kill();
            let _ = c.wait();
        }
        None
    }

    pub fn http_get(&self, path: &str, key: Option<&str>) -> Option<(u16, String)> {
        let mut s = std::net::TcpStream::connect_timeout(&format!("127.0.0.1:{}", self.http_port).parse().ok()?, Duration::from_millis(500)).ok()?;
        let _ = s.set_read_timeout(Some(Duration::from_secs(5)));
        let mut req = format!("GET {} HTTP/1.1\r\nHost: 127.0.0.1\r\nConnection: close\r\n", path);
        if let Some(k) = key {
            req.push_str(&format!("x-api-key: {}\r\n", k));
        }
        req.push_str("\r\n");
        s.write_all(req.as_bytes()).ok()?;
        let mut buf = String::new();
        let _ = s.read_to_string(&mut buf);
        let status: u16 = buf.split_whitespace().nth(1)?.parse().ok()?;
        let body = buf.split("\r\n\r\n").nth(1).unwrap_or("").to_string();
        Some((status, body))
    }

    pub fn client(&self, key: Option<String>) -> Result<Cl, String> {
        let ep = format!("http://127.0.0.1:{}", self.grpc_port);
        let rt = self.rt.clone();
        // on a loaded machine the listener can be bound before the server accepts: retry for a while
        let t0 = Instant::now();
        let ch = loop {
            let ep = ep.clone();
            match rt.block_on(async { Channel::from_shared(ep).map_err(|e| e.to_string())?.connect_timeout(Duration::from_secs(5)).connect().await.map_err(|e| e.to_string()) }) {
                Ok(ch) => break ch,
                Err(e) => {
                    if t0.elapsed() > Duration::from_secs(20) {
                        return Err(e);
                    }
                    std::thread::sleep(Duration::from_millis(250));
                }
            }
        };
        Ok(Cl {
            c: KyroDbServiceClient::with_interceptor(ch, KeyInt { key }).max_decoding_message_size(64 << 20).max_encoding_message_size(64 << 20),
            rt,
        })
    }

    pub fn tenant_client(&self, tenant: &str) -> Result<Cl, String> {
        self.client(Some(key_for(tenant)))
    }
}

impl Drop for Srv {
    fn drop(&mut self) {
        self.kill9();
    }
}

#[derive(Clone)]
pub struct KeyInt {
    key: Option<String>,
}

impl tonic::service::Interceptor for KeyInt {
    fn call(&mut self, mut req: Request<()>) -> Result<Request<()>, Status> {
        if let Some(k) = &self.key {
            if let Ok(v) = k.parse() {
                req.metadata_mut().insert("x-api-key", v);
            }
        }
        Ok(req)
    }
}

/// blocking convenience client
#[derive(Clone)]
pub struct Cl {
    pub c: KyroDbServiceClient<InterceptedService<Channel, KeyInt>>,
    pub rt: Arc<tokio::runtime::Runtime>,
}

pub type R<T> = Result<T, Status>;

fn with_deadline<T>(mut r: Request<T>) -> Request<T> {
    r.set_timeout(Duration::from_secs(60));
    r
}

impl Cl {
    pub fn insert(&mut self, id: u64, v: Vec<f32>, meta: HashMap<String, String>, ns: &str) -> R<InsertResponse> {
        let req = InsertRequest { doc_id: id, embedding: v, metadata: meta, namespace: ns.to_string() };
        let mut c = self.c.clone();
        self.rt.block_on(async move { c.insert(with_deadline(Request::new(req))).await.map(|r| r.into_inner()) })
    }
    pub fn bulk_insert(&mut self, items: Vec<InsertRequest>) -> R<InsertResponse> {
        let mut c = self.c.clone();
        self.rt.block_on(async move { c.bulk_insert(with_deadline(Request::new(tokio_stream::iter(items)))).await.map(|r| r.into_inner()) })
    }
    pub fn bulk_load(&mut self, items: Vec<InsertRequest>) -> R<BulkLoadResponse> {
        let mut c = self.c.clone();
        self.rt.block_on(async move { c.bulk_load_hnsw(with_deadline(Request::new(tokio_stream::iter(items)))).await.map(|r| r.into_inner()) })
    }
    pub fn delete(&mut self, id: u64, ns: &str) -> R<DeleteResponse> {
        let mut c = self.c.clone();
        let req = DeleteRequest { doc_id: id, namespace: ns.to_string() };
        self.rt.block_on(async move { c.delete(with_deadline(Request::new(req))).await.map(|r| r.into_inner()) })
    }
    pub fn update_metadata(&mut self, id: u64, meta: HashMap<String, String>, merge: bool, ns: &str) -> R<UpdateMetadataResponse> {
        let mut c = self.c.clone();
        let req = UpdateMetadataRequest { doc_id: id, metadata: meta, merge, namespace: ns.to_string() };
        self.rt.block_on(async move { c.update_metadata(with_deadline(Request::new(req))).await.map(|r| r.into_inner()) })
    }
    pub fn query(&mut self, id: u64, include_embedding: bool, ns: &str) -> R<QueryResponse> {
        let mut c = self.c.clone();
        let req = QueryRequest { doc_id: id, include_embedding, namespace: ns.to_string() };
        self.rt.block_on(async move { c.query(with_deadline(Request::new(req))).await.map(|r| r.into_inner()) })
    }
    pub fn bulk_query(&mut self, ids: Vec<u64>, include_embeddings: bool, ns: &str) -> R<BulkQueryResponse> {
        let mut c = self.c.clone();
        let req = BulkQueryRequest { doc_ids: ids, include_embeddings, namespace: ns.to_string() };
        self.rt.block_on(async move { c.bulk_query(with_deadline(Request::new(req))).await.map(|r| r.into_inner()) })
    }
    pub fn search(&mut self, req: SearchRequest) -> R<SearchResponse> {
        let mut c = self.c.clone();
        self.rt.block_on(async move { c.search(with_deadline(Request::new(req))).await.map(|r| r.into_inner()) })
    }
    pub fn bulk_search(&mut self, reqs: Vec<SearchRequest>) -> R<Vec<Result<SearchResponse, Status>>> {
        let mut c = self.c.clone();
        self.rt.block_on(async move {
            let mut stream = c.bulk_search(with_deadline(Request::new(tokio_stream::iter(reqs)))).await?.into_inner();
            let mut out = Vec::new();
            loop {
                match stream.message().await {
                    Ok(Some(m)) => out.push(Ok(m)),
                    Ok(None) => break,
                    Err(e) => {
                        out.push(Err(e));
                        break;
                    }
                }
            }
            Ok(out)
        })
    }
    pub fn batch_delete_ids(&mut self, ids: Vec<u64>, ns: &str) -> R<BatchDeleteResponse> {
        let mut c = self.c.clone();
        let req = BatchDeleteRequest { delete_criteria: Some(batch_delete_request::DeleteCriteria::Ids(IdList { doc_ids: ids })), namespace: ns.to_string() };
        self.rt.block_on(async move { c.batch_delete(with_deadline(Request::new(req))).await.map(|r| r.into_inner()) })
    }
    pub fn batch_delete_filter(&mut self, f: MetadataFilter, ns: &str) -> R<BatchDeleteResponse> {
        let mut c = self.c.clone();
        let req = BatchDeleteRequest { delete_criteria: Some(batch_delete_request::DeleteCriteria::Filter(f)), namespace: ns.to_string() };
        self.rt.block_on(async move { c.batch_delete(with_deadline(Request::new(req))).await.map(|r| r.into_inner()) })
    }
    pub fn batch_delete_none(&mut self) -> R<BatchDeleteResponse> {
        let mut c = self.c.clone();
        let req = BatchDeleteRequest { delete_criteria: None, namespace: String::new() };
        self.rt.block_on(async move { c.batch_delete(with_deadline(Request::new(req))).await.map(|r| r.into_inner()) })
    }
    pub fn flush(&mut self, force: bool) -> R<FlushResponse> {
        let mut c = self.c.clone();
        self.rt.block_on(async move { c.flush_hot_tier(with_deadline(Request::new(FlushRequest { force }))).await.map(|r| r.into_inner()) })
    }
    pub fn snapshot(&mut self, path: &str) -> R<SnapshotResponse> {
        let mut c = self.c.clone();
        let p = path.to_string();
        self.rt.block_on(async move { c.create_snapshot(with_deadline(Request::new(SnapshotRequest { path: p }))).await.map(|r| r.into_inner()) })
    }
    pub fn health(&mut self) -> R<HealthResponse> {
        let mut c = self.c.clone();
        self.rt.block_on(async move { c.health(with_deadline(Request::new(HealthRequest { component: String::new() }))).await.map(|r| r.into_inner()) })
    }
    pub fn metrics(&mut self) -> R<MetricsResponse> {
        let mut c = self.c.clone();
        self.rt.block_on(async move { c.metrics(with_deadline(Request::new(MetricsRequest { categories: vec![] }))).await.map(|r| r.into_inner()) })
    }
    pub fn get_config(&mut self) -> R<ConfigResponse> {
        let mut c = self.c.clone();
        self.rt.block_on(async move { c.get_config(with_deadline(Request::new(ConfigRequest {}))).await.map(|r| r.into_inner()) })
    }
}

pub fn new_rt() -> Arc<tokio::runtime::Runtime> {
    Arc::new(tokio::runtime::Builder::new_multi_thread().worker_threads(4).enable_all().build().expect("rt"))
}
