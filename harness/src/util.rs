//! Shared plumbing: seeded RNG, argument parsing, result accumulator (JSON), scratch dirs.
#![allow(dead_code)]

use serde_json::{json, Value};
use std::collections::{BTreeMap, HashSet};
use std::hash::{Hash, Hasher};
use std::path::{Path, PathBuf};
use std::sync::atomic::{AtomicU64, Ordering};
use std::time::Instant;

/// SplitMix64-seeded xoshiro256** (deterministic, no external state).
#[derive(Clone, Debug)]
pub struct Rng {
    s: [u64; 4],
}

impl Rng {
    pub fn new(seed: u64) -> Self {
        let mut z = seed.wrapping_add(0x9E3779B97F4A7C15);
        let mut s = [0u64; 4];
        for slot in s.iter_mut() {
            z = z.wrapping_add(0x9E3779B97F4A7C15);
            let mut x = z;
            x = (x ^ (x >> 30)).wrapping_mul(0xBF58476D1CE4E5B9);
            x = (x ^ (x >> 27)).wrapping_mul(0x94D049BB133111EB);
            *slot = x ^ (x >> 31);
        }
        Rng { s }
    }
    pub fn derive(seed: u64, a: u64, b: u64) -> Self {
        Rng::new(seed ^ a.wrapping_mul(0xA24BAED4963EE407) ^ b.wrapping_mul(0x9FB21C651E98DF25))
    }
    pub fn next_u64(&mut self) -> u64 {
        let result = self.s[1].wrapping_mul(5).rotate_left(7).wrapping_mul(9);
        let t = self.s[1] << 17;
        self.s[2] ^= self.s[0];
        self.s[3] ^= self.s[1];
        self.s[1] ^= self.s[2];
        self.s[0] ^= self.s[3];
        self.s[2] ^= t;
        self.s[3] = self.s[3].rotate_left(45);
        result
    }
    /// uniform in [0, n)
    pub fn below(&mut self, n: u64) -> u64 {
        if n == 0 {
            return 0;
        }
        self.next_u64() % n
    }
    pub fn range(&mut self, lo: u64, hi_incl: u64) -> u64 {
        lo + self.below(hi_incl - lo + 1)
    }
    pub fn usize_below(&mut self, n: usize) -> usize {
        self.below(n as u64) as usize
    }
    pub fn chance(&mut self, p: f64) -> bool {
        self.f64() < p
    }
    pub fn f64(&mut self) -> f64 {
        (self.next_u64() >> 11) as f64 / (1u64 << 53) as f64
    }
    /// uniform in [-1, 1)
    pub fn sym(&mut self) -> f64 {
        self.f64() * 2.0 - 1.0
    }
    /// standard normal (Box-Muller)
    pub fn gauss(&mut self) -> f64 {
        let u1 = (self.f64()).max(1e-300);
        let u2 = self.f64();
        (-2.0 * u1.ln()).sqrt() * (2.0 * std::f64::consts::PI * u2).cos()
    }
    pub fn pick<'a, T>(&mut self, xs: &'a [T]) -> &'a T {
        &xs[self.usize_below(xs.len())]
    }
    pub fn shuffle<T>(&mut self, xs: &mut [T]) {
        for i in (1..xs.len()).rev() {
            let j = self.usize_below(i + 1);
            xs.swap(i, j);
        }
    }
}

pub fn hash64<T: Hash>(t: &T) -> u64 {
    let mut h = std::collections::hash_map::DefaultHasher::new();
    t.hash(&mut h);
    h.finish()
}

#[derive(Clone, Debug)]
pub struct Args {
    pub seed: u64,
    pub thorough: bool,
    pub shard: usize,
    pub nshards: usize,
    pub out: Option<PathBuf>,
    pub replay: Option<PathBuf>,
    pub extra: BTreeMap<String, String>,
    pub positional: Vec<String>,
}

impl Args {
    pub fn parse(argv: &[String]) -> Args {
        let mut a = Args {
            seed: 1,
            thorough: false,
            shard: 0,
            nshards: 1,
            out: None,
            replay: None,
            extra: BTreeMap::new(),
            positional: Vec::new(),
        };
        let mut i = 0;
        while i < argv.len() {
            let k = argv[i].as_str();
            let mut val = || {
                i += 1;
                argv.get(i).cloned().unwrap_or_default()
            };
            match k {
                "--seed" => a.seed = val().parse().unwrap_or(1),
                "--tier" => a.thorough = val() == "thorough",
                "--shard" => {
                    let v = val();
                    let mut it = v.split('/');
                    a.shard = it.next().and_then(|x| x.parse().ok()).unwrap_or(0);
                    a.nshards = it.next().and_then(|x| x.parse().ok()).unwrap_or(1).max(1);
                }
                "--out" => a.out = Some(PathBuf::from(val())),
                "--replay" => a.replay = Some(PathBuf::from(val())),
                _ if k.starts_with("--") => {
                    let key = k[2..].to_string();
                    let v = val();
                    a.extra.insert(key, v);
                }
                _ => a.positional.push(k.to_string()),
            }
            i += 1;
        }
        a
    }
    pub fn get(&self, k: &str) -> Option<&str> {
        self.extra.get(k).map(|s| s.as_str())
    }
    pub fn get_u64(&self, k: &str, d: u64) -> u64 {
        self.get(k).and_then(|v| v.parse().ok()).unwrap_or(d)
    }
    /// pick a budget by tier
    pub fn n(&self, quick: usize, thorough: usize) -> usize {
        if self.thorough {
            thorough
        } else {
            quick
        }
    }
    /// does this shard own case index i?
    pub fn mine(&self, i: usize) -> bool {
        i % self.nshards == self.shard
    }
}

#[derive(Clone, Debug)]
pub struct Violation {
    /// structured signature: used for known-finding matching (exact string match on prefix)
    pub sig: String,
    pub detail: String,
    pub replay: Value,
}

/// Result accumulator of one harness process (one shard of one leg of one check).
pub struct Out {
    pub property: String,
    pub leg: String,
    pub evaluations: u64,
    distinct: HashSet<u64>,
    pub samples: Vec<Value>,
    pub violations: Vec<Violation>,
    pub inconclusive: Vec<String>,
    pub counters: BTreeMap<String, u64>,
    pub notes: Vec<String>,
    started: Instant,
    max_samples: usize,
    max_violations: usize,
}

impl Out {
    pub fn new(property: &str, leg: &str) -> Out {
        Out {
            property: property.to_string(),
            leg: leg.to_string(),
            evaluations: 0,
            distinct: HashSet::new(),
            samples: Vec::new(),
            violations: Vec::new(),
            inconclusive: Vec::new(),
            counters: BTreeMap::new(),
            notes: Vec::new(),
            started: Instant::now(),
            max_samples: 3,
            max_violations: 40,
        }
    }
    pub fn eval(&mut self) {
        self.evaluations += 1;
    }
    /// record a distinct non-trivial case by its hash
    pub fn distinct<T: Hash>(&mut self, t: &T) {
        self.distinct.insert(hash64(t));
    }
    pub fn distinct_hash(&mut self, h: u64) {
        self.distinct.insert(h);
    }
    pub fn distinct_count(&self) -> usize {
        self.distinct.len()
    }
    pub fn sample(&mut self, v: Value) {
        if self.samples.len() < self.max_samples {
            self.samples.push(v);
        }
    }
    pub fn count(&mut self, k: &str, n: u64) {
        *self.counters.entry(k.to_string()).or_insert(0) += n;
    }
    pub fn set_max(&mut self, k: &str, n: u64) {
        let e = self.counters.entry(k.to_string()).or_insert(0);
        if n > *e {
            *e = n;
        }
    }
    pub fn violation(&mut self, sig: impl Into<String>, detail: impl Into<String>, replay: Value) {
        let sig = sig.into();
        self.count("violations_total", 1);
        // keep at most a few per signature
        let same = self.violations.iter().filter(|v| v.sig == sig).count();
        if same >= 3 || self.violations.len() >= self.max_violations {
            return;
        }
        self.violations.push(Violation {
            sig,
            detail: detail.into(),
            replay,
        });
    }
    pub fn inconclusive(&mut self, why: impl Into<String>) {
        self.count("inconclusive", 1);
        if self.inconclusive.len() < 20 {
            self.inconclusive.push(why.into());
        }
    }
    pub fn note(&mut self, s: impl Into<String>) {
        if self.notes.len() < 20 {
            self.notes.push(s.into());
        }
    }
    pub fn to_json(&self) -> Value {
        json!({
            "property": self.property,
            "leg": self.leg,
            "evaluations": self.evaluations,
            "distinct_hashes": self.distinct.iter().map(|h| format!("{:016x}", h)).collect::<Vec<_>>(),
            "samples": self.samples,
            "violations": self.violations.iter().map(|v| json!({"sig": v.sig, "detail": v.detail, "replay": v.replay})).collect::<Vec<_>>(),
            "inconclusive": self.inconclusive,
            "counters": self.counters,
            "notes": self.notes,
            "wall_s": self.started.elapsed().as_secs_f64(),
        })
    }
    pub fn finish(&self, args: &Args) {
        let v = self.to_json();
        let s = serde_json::to_string(&v).unwrap();
        if let Some(p) = &args.out {
            if let Some(parent) = p.parent() {
                let _ = std::fs::create_dir_all(parent);
            }
            std::fs::write(p, s).expect("write result file");
        } else {
            println!("{}", s);
        }
    }
}

static SCRATCH_CTR: AtomicU64 = AtomicU64::new(0);

/// A scratch directory under /dev/shm (tmpfs: fast fsync) removed on drop.
pub struct Scratch {
    pub path: PathBuf,
    keep: bool,
}

pub fn scratch_base() -> PathBuf {
    let base = std::env::var("VERIF_SCRATCH").unwrap_or_else(|_| "/dev/shm".to_string());
    PathBuf::from(base)
}

impl Scratch {
    pub fn new(tag: &str) -> Scratch {
        let n = SCRATCH_CTR.fetch_add(1, Ordering::SeqCst);
        let path = scratch_base().join(format!(
            "kyrodb-verif.{}.{}.{}",
            std::process::id(),
            tag,
            n
        ));
        let _ = std::fs::remove_dir_all(&path);
        std::fs::create_dir_all(&path).expect("create scratch dir");
        Scratch { path, keep: false }
    }
    pub fn keep(&mut self) {
        self.keep = true;
    }
    pub fn p(&self) -> &Path {
        &self.path
    }
    pub fn sub(&self, name: &str) -> PathBuf {
        self.path.join(name)
    }
}

impl Drop for Scratch {
    fn drop(&mut self) {
        if !self.keep {
            let _ = std::fs::remove_dir_all(&self.path);
        }
    }
}

pub fn copy_dir(src: &Path, dst: &Path) -> std::io::Result<()> {
    std::fs::create_dir_all(dst)?;
    for e in std::fs::read_dir(src)? {
        let e = e?;
        let ft = e.file_type()?;
        let to = dst.join(e.file_name());
        if ft.is_dir() {
            copy_dir(&e.path(), &to)?;
        } else if ft.is_file() {
            std::fs::copy(e.path(), &to)?;
        }
    }
    Ok(())
}

pub fn bits(v: &[f32]) -> Vec<u32> {
    v.iter().map(|x| x.to_bits()).collect()
}

pub fn unbits(v: &[u32]) -> Vec<f32> {
    v.iter().map(|x| f32::from_bits(*x)).collect()
}

/// Silence the engine's tracing output (it logs through `tracing`; without a subscriber nothing
/// is printed, so nothing to do) and make panics in worker threads visible but non-fatal.
pub fn quiet_panics() {
    std::panic::set_hook(Box::new(|info| {
        let msg = info.to_string();
        if std::env::var("VERIF_SHOW_PANICS").is_ok() {
            eprintln!("[panic] {}", msg);
        }
    }));
}
