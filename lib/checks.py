"""Registry of checks: which harness legs decide which property, at which evidence level."""

EXTRA_BUILDS = {}

HOOK_COMMITS = ["7bc0d60"]
FIX_COMMITS = ["243874c"]

NOT_APPLICABLE = {}

COMMON_ASSUME = [
    "the harness drives the real engine code built from /repo's working tree with feature verif-hooks",
    "verdicts hold only for the executions observed in this run",
]

CHECKS = {
    "C02": {
        "level": "exploration",
        "rule": "one case = seeded configuration (metric x dimension x snapshot interval x rotation size x capacity x fsync "
                "policy x HnswBackend|TieredEngine) + seeded history of insert/overwrite/delete/batch-delete/metadata "
                "update/snapshot/flush with 1..n clean restarts; after every restart the recovered collection is compared "
                "bit-exactly with the live collection and the sequential model, plus shape invariants S and log checker L. "
                "distinct_nontrivial = distinct (configuration, history) pairs that used >= 3 operation kinds",
        "legs": [{"name": "restart-differential", "argv": ["c02"], "shards": 16}],
        "assumptions": COMMON_ASSUME + ["stored vector bits are learned by read-back after each acknowledged insert"],
        "min_evaluations": 100,
        "level_text": "model-based differential testing of the real HnswBackend / TieredEngine across clean restarts: thousands of "
                      "seeded (configuration, history) cases per run, every restart judged bit-exactly against the live state and "
                      "a sequential reference model, with structural (S) and on-disk log (L) invariants; exploration, not proof",
        "level_note": "trusted: the harness's sequential model and the crate's own WAL/snapshot/MANIFEST readers used by checker L; "
                      "configurations outside the grid and histories longer than ~90 ops are not explored",
        "technique": "runtime monitoring: model-based differential oracle + invariant checkers over seeded histories",
    },
    "C04": {
        "level": "exploration",
        "rule": "one case = seeded (cache strategy in {LRU, learned untrained, learned trained, learned+semantic, A/B} x document-cache "
                "capacity {1,2,16} x query-cache capacity x recent-write-tier soft/hard limits x metric x dimension x persistence x "
                "background audit task) + seeded sequential history of writes, deletes, metadata updates, bulk loads, forced/threshold/"
                "emergency drains, searches and adversarial pokes (stale or corrupt entries planted in the document cache and the "
                "recent-write tier through public APIs); after EVERY step all 8 read flavours over the whole id universe are compared "
                "bit-exactly with the sequential model, and after drains a copy of the directory is recovered and compared. "
                "distinct_nontrivial = distinct (configuration, history) pairs using >= 4 step kinds",
        "legs": [
            {"name": "reads-after-every-step", "argv": ["c04"], "shards": 16},
            {"name": "reads-orphan-pokes", "argv": ["c04"], "args": {"orphans": 1}, "shards": 16},
            {"name": "reads-background-audit", "argv": ["c04"], "args": {"background": 1}, "shards": 16},
        ],
        "assumptions": COMMON_ASSUME + ["pokes are applied through public APIs only (CacheStrategy::insert_cached, HotTier::insert_with_coherence)",
                                         "128-bit digest collisions are not generated"],
        "min_evaluations": 100,
        "level_text": "model-based runtime monitoring of every read flavour after every step of thousands of seeded sequential histories per "
                      "run, across all cache strategies and tiny capacities, including deliberately planted stale/corrupt cache and mirror "
                      "entries; exploration of histories and configurations, not proof",
        "level_note": "trusted: the sequential model; the background-audit cases are not exactly replayable (free-running task); histories <= 70 steps",
        "technique": "runtime monitoring: per-step read differential against a reference model with fault (stale-entry) injection",
    },
    "C20": {
        "level": "exploration",
        "rule": "same histories as C04 (main leg): after every operation the size of every underlying document cache (per cache for A/B), "
                "of the query-result cache and - when an insert has returned - of the recent-write tier is compared with its configured "
                "bound (capacities {1,2,16}, hard limits {1,2,3,8,2000}); every evicted/drained document must stay readable bit-exactly. "
                "distinct_nontrivial = distinct (configuration, history) pairs using >= 4 step kinds",
        "legs": [{"name": "reads-after-every-step", "argv": ["c20"], "shards": 16}],
        "assumptions": COMMON_ASSUME + ["bounds are read through public accessors (CacheStrategy::size, QueryHashCache::len, HotTier::len)"],
        "min_evaluations": 100,
        "level_text": "invariant monitoring (size bounds and content preservation) after every step of thousands of seeded histories per run "
                      "over all strategies with capacities 1/2/16 and hard limits down to 1; exploration, not proof",
        "level_note": "sizes are observed at operation boundaries of a sequential history (the property's own observation point); "
                      "transient over-capacity inside an operation is not observable and not claimed",
        "technique": "runtime monitoring: invariant assertions on hooked sizes after every operation + read differential",
    },
    "C11": {
        "level": "exploration",
        "rule": "three legs. histories: seeded history (insert/overwrite/merge+replace updates flipping values between numeric and string/"
                "delete/batch delete/tombstone compaction/recovery) over metadata drawn from ~55 value classes (integers, decimals, "
                "exponents, +-0, +-inf, NaN, leading +, whitespace, empty, non-ASCII, 10 kB strings, numeric look-alikes); after every step "
                "24-40 seeded filter trees (depth 0-4, incl. empty forms and NOT without operand) are evaluated three ways: index-backed "
                "ids_for_metadata_filter, scan(matches), independent reference evaluator over the model. exhaustive: every filter tree up to "
                "depth 2 over a reduced alphabet against a fixed collection with tombstones. filtered-delete: TieredEngine::"
                "batch_delete_by_metadata_filter judged by the resulting collection, with bulk loads over documents that have a recent-write "
                "mirror. distinct_nontrivial = distinct histories with >= 3 op kinds where some filter selected a proper non-empty subset, "
                "plus distinct exhaustive filters selecting a proper subset",
        "legs": [
            {"name": "histories", "argv": ["c11"], "args": {"leg": "histories"}, "shards": 16},
            {"name": "exhaustive", "argv": ["c11"], "args": {"leg": "exhaustive"}, "shards": 16},
            {"name": "filtered-delete", "argv": ["c11"], "args": {"leg": "filtered-delete"}, "shards": 16},
        ],
        "assumptions": COMMON_ASSUME + ["numeric means Rust's str::parse::<f64> succeeds on both sides (the documented rule); the reference evaluator is written independently of metadata_filter.rs"],
        "min_evaluations": 1000,
        "exhaustive_key": "exhaustive_leaf_count",
        "level_text": "three-way differential monitoring (index vs predicate vs independent reference) over seeded histories and an exhaustive "
                      "enumeration of all depth<=2 filter trees on a reduced alphabet; exploration for histories, exhaustive small scope for trees",
        "level_note": "trusted: the harness reference evaluator; exhaustive only for the reduced alphabet and fixed collection of the exhaustive leg",
        "technique": "runtime monitoring: three-way differential oracle over histories + exhaustive small-scope filter enumeration",
    },
    "C06": {
        "level": "exploration",
        "rule": "one case = seeded (dimension in {1,3,7,8,9,15,16,17,33} x metric x mode {mixed, heavy delete up to ~95% tombstones, tiny "
                "capacity forcing tombstone compaction, larger collection} x recent-write-tier limits x ef_search x query-cache capacity) + "
                "seeded history of writes/deletes/overwrites/drains with interleaved searches of all 5 flavours (sync, ef override, batch, "
                "timed async, cold tier direct), k in {1,2,3,10,100,1000}, ef in {None,1,k,10000}; each result list is judged against the "
                "sequential model and an f64 reference distance (count <= k, distinct, live, true distance within 1e-4+1e-4*d, sorted) and "
                "every acknowledged recent-write-tier resident document strictly inside the k-th distance must be present; one leg per forced "
                "SIMD kernel family (hook H1). distinct_nontrivial = distinct (configuration, history) pairs with >= 3 searches of >= 2 flavours",
        "legs": [
            {"name": "search-oracle[%s]" % k, "argv": ["c06"], "shards": 16, "env": {"KYRODB_VERIF_FORCE_KERNEL": k}}
            for k in ("avx512", "avx2", "sse2", "scalar")
        ],
        "assumptions": COMMON_ASSUME + ["inputs avoid KyroDB's documented [0.98,1.02] squared-norm slack band (unit to 1e-5 or outside [0.90,1.10])",
                                         "query-cache similarity threshold 1.0 in these runs (semantic hits are by design, see DESIGN 7)",
                                         "responses under explicit degradation (timeout / breaker / shedding counters moved) are excluded from the completeness clause"],
        "min_evaluations": 100,
        "level_text": "per-result runtime oracle (reference model + f64 brute-force distance) on every search of thousands of seeded histories, "
                      "with every available SIMD kernel forced in turn; exploration, not proof; recall itself is C16",
        "level_note": "trusted: the f64 reference distance and the sequential model; absence of old (drained) documents is recall, not judged here",
        "technique": "runtime monitoring: per-result oracle against reference model and brute-force distances, forced kernels",
    },
}
