"""Registry of checks: which harness legs decide which property, at which evidence level."""

EXTRA_BUILDS = {}

HOOK_COMMITS = ["7bc0d60"]

NOT_APPLICABLE = {}

COMMON_ASSUME = [
    "the harness drives the real engine code built from /repo's working tree with feature verif-hooks",
    "verdicts hold only for the executions observed in this run",
]

CHECKS = {
    "C02": {
        "level": "exploration",
        "rule": "one case = seeded configuration (metric x dimension x snapshot interval x rotation size x capacity x fsync "
                "policy x HnswBackend|TieredEngine) + seeded history of insert/overwrite/delete/batch-delete/metadata "
                "update/snapshot/flush with 1..n clean restarts; after every restart the recovered collection is compared "
                "bit-exactly with the live collection and the sequential model, plus shape invariants S and log checker L. "
                "distinct_nontrivial = distinct (configuration, history) pairs that used >= 3 operation kinds",
        "legs": [{"name": "restart-differential", "argv": ["c02"], "shards": 16}],
        "assumptions": COMMON_ASSUME + ["stored vector bits are learned by read-back after each acknowledged insert"],
        "min_evaluations": 100,
        "level_text": "model-based differential testing of the real HnswBackend / TieredEngine across clean restarts: thousands of "
                      "seeded (configuration, history) cases per run, every restart judged bit-exactly against the live state and "
                      "a sequential reference model, with structural (S) and on-disk log (L) invariants; exploration, not proof",
        "level_note": "trusted: the harness's sequential model and the crate's own WAL/snapshot/MANIFEST readers used by checker L; "
                      "configurations outside the grid and histories longer than ~90 ops are not explored",
        "technique": "runtime monitoring: model-based differential oracle + invariant checkers over seeded histories",
    },
}
