"""Registry of checks: which harness legs decide which property, at which evidence level."""

EXTRA_BUILDS = {}

HOOK_COMMITS = ["7bc0d60"]
FIX_COMMITS = ["243874c", "428186b", "52f0108", "243864d", "8c765f6", "203eb57", "7f74090", "7540dfb", "68d683c", "7270b67", "5166c8b", "ecda124", "339d430", "de0c013", "2ab1d79", "1ca4c45", "85f8c0d", "e55cc2b", "737d37d", "b36c271", "e1afc6e", "e9b5406", "f7dcfe9", "96f195d"]

NOT_APPLICABLE = {}

COMMON_ASSUME = [
    "the harness drives the real engine code built from /repo's working tree with feature verif-hooks",
    "verdicts hold only for the executions observed in this run",
]

CHECKS = {
    "C02": {
        "level": "exploration",
        "rule": "one case = seeded configuration (metric x dimension x snapshot interval x rotation size x capacity x fsync "
                "policy x HnswBackend|TieredEngine) + seeded history of insert/overwrite/delete/batch-delete/metadata "
                "update/snapshot/flush with 1..n clean restarts; after every restart the recovered collection is compared "
                "bit-exactly with the live collection and the sequential model, plus shape invariants S and log checker L. "
                "distinct_nontrivial = distinct (configuration, history) pairs that used >= 3 operation kinds",
        "legs": [{"name": "restart-differential", "argv": ["c02"], "shards": 16}],
        "assumptions": COMMON_ASSUME + ["stored vector bits are learned by read-back after each acknowledged insert"],
        "min_evaluations": 100,
        "level_text": "model-based differential testing of the real HnswBackend / TieredEngine across clean restarts: thousands of "
                      "seeded (configuration, history) cases per run, every restart judged bit-exactly against the live state and "
                      "a sequential reference model, with structural (S) and on-disk log (L) invariants; exploration, not proof",
        "level_note": "trusted: the harness's sequential model and the crate's own WAL/snapshot/MANIFEST readers used by checker L; "
                      "configurations outside the grid and histories longer than ~90 ops are not explored",
        "technique": "runtime monitoring: model-based differential oracle + invariant checkers over seeded histories",
    },
    "C04": {
        "level": "exploration",
        "rule": "one case = seeded (cache strategy in {LRU, learned untrained, learned trained, learned+semantic, A/B} x document-cache "
                "capacity {1,2,16} x query-cache capacity x recent-write-tier soft/hard limits x metric x dimension x persistence x "
                "background audit task) + seeded sequential history of writes, deletes, metadata updates, bulk loads, forced/threshold/"
                "emergency drains, searches and adversarial pokes (stale or corrupt entries planted in the document cache and the "
                "recent-write tier through public APIs); after EVERY step all 8 read flavours over the whole id universe are compared "
                "bit-exactly with the sequential model, and after drains a copy of the directory is recovered and compared. "
                "distinct_nontrivial = distinct (configuration, history) pairs using >= 4 step kinds",
        "legs": [
            {"name": "reads-after-every-step", "argv": ["c04"], "shards": 16},
            {"name": "reads-orphan-pokes", "argv": ["c04"], "args": {"orphans": 1}, "shards": 16},
            {"name": "reads-background-audit", "argv": ["c04"], "args": {"background": 1}, "shards": 16},
        ],
        "assumptions": COMMON_ASSUME + ["pokes are applied through public APIs only (CacheStrategy::insert_cached, HotTier::insert_with_coherence)",
                                         "128-bit digest collisions are not generated"],
        "min_evaluations": 100,
        "level_text": "model-based runtime monitoring of every read flavour after every step of thousands of seeded sequential histories per "
                      "run, across all cache strategies and tiny capacities, including deliberately planted stale/corrupt cache and mirror "
                      "entries; exploration of histories and configurations, not proof",
        "level_note": "trusted: the sequential model; the background-audit cases are not exactly replayable (free-running task); histories <= 70 steps",
        "technique": "runtime monitoring: per-step read differential against a reference model with fault (stale-entry) injection",
    },
    "C20": {
        "level": "exploration",
        "rule": "same histories as C04 (main leg): after every operation the size of every underlying document cache (per cache for A/B), "
                "of the query-result cache and - when an insert has returned - of the recent-write tier is compared with its configured "
                "bound (capacities {1,2,16}, hard limits {1,2,3,8,2000}); every evicted/drained document must stay readable bit-exactly. "
                "distinct_nontrivial = distinct (configuration, history) pairs using >= 4 step kinds",
        "legs": [{"name": "reads-after-every-step", "argv": ["c20"], "shards": 16}],
        "assumptions": COMMON_ASSUME + ["bounds are read through public accessors (CacheStrategy::size, QueryHashCache::len, HotTier::len)"],
        "min_evaluations": 100,
        "level_text": "invariant monitoring (size bounds and content preservation) after every step of thousands of seeded histories per run "
                      "over all strategies with capacities 1/2/16 and hard limits down to 1; exploration, not proof",
        "level_note": "sizes are observed at operation boundaries of a sequential history (the property's own observation point); "
                      "transient over-capacity inside an operation is not observable and not claimed",
        "technique": "runtime monitoring: invariant assertions on hooked sizes after every operation + read differential",
    },
    "C11": {
        "level": "exploration",
        "rule": "three legs. histories: seeded history (insert/overwrite/merge+replace updates flipping values between numeric and string/"
                "delete/batch delete/tombstone compaction/recovery) over metadata drawn from ~55 value classes (integers, decimals, "
                "exponents, +-0, +-inf, NaN, leading +, whitespace, empty, non-ASCII, 10 kB strings, numeric look-alikes); after every step "
                "24-40 seeded filter trees (depth 0-4, incl. empty forms and NOT without operand) are evaluated three ways: index-backed "
                "ids_for_metadata_filter, scan(matches), independent reference evaluator over the model. exhaustive: every filter tree up to "
                "depth 2 over a reduced alphabet against a fixed collection with tombstones. filtered-delete: TieredEngine::"
                "batch_delete_by_metadata_filter judged by the resulting collection, with bulk loads over documents that have a recent-write "
                "mirror. distinct_nontrivial = distinct histories with >= 3 op kinds where some filter selected a proper non-empty subset, "
                "plus distinct exhaustive filters selecting a proper subset",
        "legs": [
            {"name": "histories", "argv": ["c11"], "args": {"leg": "histories"}, "shards": 16},
            {"name": "exhaustive", "argv": ["c11"], "args": {"leg": "exhaustive"}, "shards": 16},
            {"name": "filtered-delete", "argv": ["c11"], "args": {"leg": "filtered-delete"}, "shards": 16},
        ],
        "assumptions": COMMON_ASSUME + ["numeric means Rust's str::parse::<f64> succeeds on both sides (the documented rule); the reference evaluator is written independently of metadata_filter.rs"],
        "min_evaluations": 1000,
        "exhaustive_key": "exhaustive_leaf_count",
        "level_text": "three-way differential monitoring (index vs predicate vs independent reference) over seeded histories and an exhaustive "
                      "enumeration of all depth<=2 filter trees on a reduced alphabet; exploration for histories, exhaustive small scope for trees",
        "level_note": "trusted: the harness reference evaluator; exhaustive only for the reduced alphabet and fixed collection of the exhaustive leg",
        "technique": "runtime monitoring: three-way differential oracle over histories + exhaustive small-scope filter enumeration",
    },
    "C06": {
        "level": "exploration",
        "rule": "one case = seeded (dimension in {1,3,7,8,9,15,16,17,33} x metric x mode {mixed, heavy delete up to ~95% tombstones, tiny "
                "capacity forcing tombstone compaction, larger collection} x recent-write-tier limits x ef_search x query-cache capacity) + "
                "seeded history of writes/deletes/overwrites/drains with interleaved searches of all 5 flavours (sync, ef override, batch, "
                "timed async, cold tier direct), k in {1,2,3,10,100,1000}, ef in {None,1,k,10000}; each result list is judged against the "
                "sequential model and an f64 reference distance (count <= k, distinct, live, true distance within 1e-4+1e-4*d, sorted) and "
                "every acknowledged recent-write-tier resident document strictly inside the k-th distance must be present; one leg per forced "
                "SIMD kernel family (hook H1). distinct_nontrivial = distinct (configuration, history) pairs with >= 3 searches of >= 2 flavours",
        "legs": [
            {"name": "search-oracle[%s]" % k, "argv": ["c06"], "shards": 16, "env": {"KYRODB_VERIF_FORCE_KERNEL": k}}
            for k in ("avx512", "avx2", "sse2", "scalar")
        ],
        "assumptions": COMMON_ASSUME + ["inputs avoid KyroDB's documented [0.98,1.02] squared-norm slack band (unit to 1e-5 or outside [0.90,1.10])",
                                         "query-cache similarity threshold 1.0 in these runs (semantic hits are by design, see DESIGN 7)",
                                         "responses under explicit degradation (timeout / breaker / shedding counters moved) are excluded from the completeness clause"],
        "min_evaluations": 100,
        "level_text": "per-result runtime oracle (reference model + f64 brute-force distance) on every search of thousands of seeded histories, "
                      "with every available SIMD kernel forced in turn; exploration, not proof; recall itself is C16",
        "level_note": "trusted: the f64 reference distance and the sequential model; absence of old (drained) documents is recall, not judged here",
        "technique": "runtime monitoring: per-result oracle against reference model and brute-force distances, forced kernels",
    },
    "C07": {
        "level": "exploration",
        "rule": "two legs. cache-model: reference-model monitor on QueryHashCache itself: seeded histories of get_scoped / (conditional and "
                "unconditional) stores with interleaved invalidations / invalidate_doc / invalidate_for_insert / clear over dims "
                "{1,8,31,32,33,64,130} x 3 metrics x thresholds {1.0,0.9,0.52} x capacities {1,2,4,64}, 2 scopes, near-duplicate and "
                "large-magnitude queries, written vectors placed just inside/outside a live entry's distance boundary (tail-heavy to stress "
                "the prefix pruning bound); every hit must be explained by a live, same-scope, large-enough-k reference entry whose query is "
                "bit-equal, quantisation-equal or above the similarity threshold. engine: TieredEngine histories over a fixed query pool in "
                "2 scopes (single and batch search, inserts, bulk loads, overwrites, deletes, metadata updates, drains); every CacheHit is "
                "judged as a fresh search now (live docs, current distances) and must contain every document written since the last store of "
                "that query that lies strictly inside the k-th distance. distinct_nontrivial = distinct histories with >= 1 judged hit (and "
                ">= 1 required invalidation in the cache-model leg)",
        "legs": [
            {"name": "cache-model", "argv": ["c07"], "args": {"leg": "cache-model"}, "shards": 16},
            {"name": "engine", "argv": ["c07"], "args": {"leg": "engine"}, "shards": 16},
            {"name": "schedule", "argv": ["c07"], "args": {"leg": "schedule"}, "shards": 16},
        ],
        "assumptions": COMMON_ASSUME + ["similarity (semantic) hits above the configured threshold are by design (DESIGN 7); over-invalidation is allowed",
                                         "schedule leg: one searching thread against one writing thread (insert at the query / delete the best hit / overwrite it far away) under directed single pauses at lock events or seeded jitter; at quiescence a following search that hits the cache must be fresh"],
        "min_evaluations": 1000,
        "level_text": "reference-model runtime monitoring of the cache API over ~10^5 seeded histories per quick run plus an end-to-end write-log "
                      "oracle on the engine; exploration, not proof",
        "level_note": "trusted: the harness reference model of required invalidations (f64 distances with 1e-4 margins)",
        "technique": "runtime monitoring: reference-model monitor over cache-operation histories + end-to-end hit oracle",
    },
    "C16": {
        "level": "exploration",
        "rule": "one case = seeded dataset (family in {uniform sphere, Gaussian clusters (16 clusters sigma 0.25; variants: 4 large clusters, "
                "tight sigma 0.1, loose sigma 0.5), low-dimensional manifold} x metric x dimension in {8,16,32,64} x size in {500,1000 "
                "[,2000,5000 thorough]; the quick slice adds ten 5000-vector clustered datasets}) reached by 5 routes (online inserts, bulk build, "
                "heavy delete + tombstone compaction, recovery rebuild, and heavy delete with the tombstones still present); two groups of "
                "200 queries per dataset (perturbed members; held-out points of the SAME draw, i.e. same cluster centres / manifold basis); "
                "recall@10 vs f64 brute force (exact-tie tolerant) of the WEAKER group must be >= 0.80 on every route, and none of the four "
                "routes the property names may be more than 0.10 below the best (the tombstones-present route is judged on the floor only); "
                "every 4th query is repeated twice on the unchanged collection and must return identical distances and identical ids outside "
                "exact ties. Measured on the unchanged tree: >= 0.999 on the named routes, >= 0.98 with tombstones. distinct_nontrivial = "
                "distinct datasets",
        "legs": [{"name": "recall-determinism", "argv": ["c16"], "shards": 16, "timeout_q": 1800, "timeout_t": 14400}],
        "assumptions": COMMON_ASSUME + ["default index parameters (M=16, ef_construction=200, adaptive ef_search)", "the floor 0.80 and the route tolerance 0.10 are the property's own numbers"],
        "min_evaluations": 8,
        "level_text": "measurement of recall and determinism of the real index against brute force over a seeded grid of datasets and build routes; "
                      "a statistical measurement, not a proof",
        "level_note": "200 queries per dataset; recall on these sizes is >> 0.9 so sampling noise cannot cross the floor",
        "technique": "runtime monitoring: measured recall/determinism oracle against brute force",
    },
    "C18": {
        "level": "exploration",
        "rule": "grid leg: the FULL cross product of the 11 safety-relevant discrete settings (84 672 rows: environment incl. case/whitespace "
                "variants x fsync x snapshot {0,>0} x recovery mode x cache strategy x auth x rate limit x observability auth x fresh-start x "
                "TLS x 7 bind-host classes), every row delivered through TOML, YAML and KYRODB__* environment variables (every 5th row also as "
                "environment variables over a benchmark file) to the real KyroDbConfig::load, remaining settings randomised within valid ranges; "
                "an independently re-stated predicate over the effective configuration judges every accepted load, verdicts must agree across "
                "routes and the loaded values must be the supplied ones; the shipped example configs are judged too. server leg: sampled "
                "rejected rows through the real kyrodb_server --config (non-zero exit, data directory never created). distinct_nontrivial = "
                "distinct rows in a non-benchmark environment (where the rule applies)",
        "legs": [
            {"name": "grid", "argv": ["c18"], "args": {"leg": "grid"}, "shards": 16},
            {"name": "server", "argv": ["c18"], "args": {"leg": "server"}, "bin_args": {"server": "server"}, "shards": 8},
        ],
        "assumptions": COMMON_ASSUME + ["loopback is judged by an independent parser (IpAddr::is_loopback / localhost)"],
        "min_evaluations": 80000,
        "exhaustive_key": "grid_rows_total",
        "level_text": "exhaustive enumeration of the discrete safety-relevant configuration grid through all three delivery routes against an "
                      "independent predicate, on the real loader; exhaustive for the grid, sampled for the server binary",
        "level_note": "exhaustive only over the listed discrete values; continuous settings are randomised; accepted rows are not started as servers",
        "technique": "runtime monitoring: exhaustive configuration-grid differential against an independent predicate",
    },
    "C19": {
        "level": "exploration",
        "rule": "one row = seeded (rate in 1..10000, optional global rate, 1-8 tenants, 1-16 caller threads, pattern in {burst, paced, "
                "burst-idle-burst, hot tenant saturating the global bucket, within-budget, refund probe}); real threads call "
                "RateLimiter::check_limit; the interval is measured on one monotonic clock from before the first to after the last call; "
                "monitors: admitted_tenant <= capacity + rate*dt + 1, admitted_total <= G + G*dt + 1, no refusal when every tenant sent <= "
                "capacity and the total <= G, tokens <= capacity, and tokens >= capacity - admitted (a global refusal must not consume the "
                "tenant's budget). Leg server-admission: the REAL kyrodb_server with tenant max_qps in {2,3,5,8} and global limit in {6,10,off}: "
                "each of 12 data-RPC shapes (Insert, Query, BulkQuery, Search, UpdateMetadata, Delete, BatchDelete, one-item and 30-item "
                "BulkInsert/BulkSearch streams, BulkLoadHnsw) is fired 30 times from 1, 2 or 4 connections of ONE tenant (own bucket per shape); "
                "admitted (= not RESOURCE_EXHAUSTED; stream items counted individually) must stay <= max_qps + max_qps*dt + 1 and the total "
                "<= G + G*dt + 1 with dt on the caller's clock; after an idle second 3 tenants send 10 requests each from full buckets and none "
                "may be refused. distinct_nontrivial = distinct rows / server cases",
        "legs": [{"name": "admission-bounds", "argv": ["c19"], "shards": 4, "parallel": 4},
                 {"name": "server-admission", "argv": ["c19", "--leg", "server"], "bin_args": {"server": "server"}, "shards": 4, "parallel": 4}],
        "assumptions": COMMON_ASSUME + ["all bounds are timing-safe: slower execution only loosens them", "one consistent max_qps per tenant (the API's contract)"],
        "min_evaluations": 50,
        "level_text": "runtime monitoring of admission counts under real concurrent callers over a seeded grid, with timing-safe bounds; "
                      "exploration of schedules by repetition, not proof",
        "level_note": "free-running OS scheduling; the refund clause is only observable in-process (available_tokens), not through the server",
        "technique": "runtime monitoring: conservation/bound monitors on admission counters under concurrent load",
    },
    "C01": {
        "level": "fault_enumeration",
        "rule": "one case = seeded configuration (metric x dim x capacity {4,8,large} x snapshot interval {1,2,3,5,large} x rotation size "
                "{64,160,512 B,large} x fsync policy {Always, Periodic(0), Periodic(50ms), Never} x HnswBackend|TieredEngine) + seeded history "
                "(insert/overwrite/delete/batch delete/metadata update/manual snapshot/clean restart) run once under the fsshim LD_PRELOAD "
                "tracer with BEGIN/ACK marks in the same total order as the file-system effects. EVERY crash point between two consecutive "
                "effects (open-create, write, fsync, fdatasync, ftruncate, rename, unlink) plus torn prefixes {1,4,half,len-1} of every write is "
                "materialised under the process-kill model and, where the fsync policy promises it, under power-loss variants (all-lost, "
                "dir-lost, data-lost, seeded in-order mixed prefixes); the real strict recovery runs on each state and the result must be "
                "bit-exactly the acknowledged model or acknowledged + the one in-flight op; for sampled states the recovery itself is traced "
                "and crashed before each of its own effects (same outcome required). The replayer is validated per case against the real "
                "directory. Leg server-periodic: the REAL kyrodb_server runs under the tracer (fsync data_only with flush interval 50/100/200 ms, or "
                "full; snapshot interval 4|1000; rotation 700 B|1 MiB), 5-16 acknowledged gRPC writes with seeded pauses (none, short, half an "
                "interval, idle > interval); at sampled failure instants the trace prefix is replayed under 5 power-loss variants, the real server "
                "is started on each state and its census must equal a prefix j of the acknowledged operations with j >= the number acknowledged "
                "more than interval + 1500 ms slack before the instant (all of them under full). distinct_nontrivial = distinct (case, crash point, loss variant, torn length) states recovered",
        "legs": [{"name": "crash-points", "argv": ["c01"], "shards": 16, "preload": "fsshim", "needs": ["fsshim"]},
                 {"name": "server-periodic", "argv": ["c01", "--leg", "server-periodic"], "bin_args": {"server": "server", "shim": "fsshim"},
                  "shards": 16, "timeout_q": 1800}],
        "assumptions": COMMON_ASSUME + ["the loss model is the property's own (bytes since a file's last fsync and directory changes since the last directory fsync may be dropped, in order)",
                                         "start-up policy as in kyrodb_server: recover (strict) when MANIFEST exists, fresh store otherwise",
                                         "Periodic(ms>0) and Never policies are judged under the kill model only at library level; the periodic clause is judged on the real binary (leg server-periodic) with 1500 ms of scheduling slack on top of the configured interval"],
        "min_evaluations": 16,
        "level_text": "exhaustive enumeration of the crash points of recorded executions (every gap between consecutive file-system effects, with "
                      "torn writes and power-loss variants), each decided by running the real recovery code and comparing with a reference model; "
                      "fault enumeration over observed executions, not a proof over all histories",
        "level_note": "trusted: the fsshim tracer (validated against the real directory every case) and the persistence model of the replayer; "
                      "real device behaviour is out of reach",
        "technique": "runtime monitoring: syscall-level effect tracing + crash-state enumeration + recovery oracle",
    },
    "C03": {
        "level": "fault_enumeration",
        "rule": "two legs. invalid-inputs: the full grid of 12 input classes (wrong dimension short/long, zero, NaN lane, +-inf lane, overflowing "
                "norm, subnormal norm, all-NaN, index full, index full with tombstones, valid control) x 4 write paths (HnswBackend::insert, "
                "TieredEngine::insert, bulk_load_cold_tier, drain repair) x 3 metrics x {new id, overwrite of a live id}; oracle: Err => live and "
                "recovered collection unchanged, Ok => readable, finite and durable; S; a later write stays durable. storage-faults (under "
                "fsshim): seeded history with one fault plan armed at a seeded operation: errno in {ENOSPC,EIO,EDQUOT,EINTR,EACCES} at the n-th "
                "write/fsync/fdatasync/rename/open/unlink of that operation, short counts followed by failing continuations, partial data on EIO, "
                "repeated failures across the engine's retries, and double/triple faults on the rollback truncate/fdatasync; after every later op "
                "live == model, at the end S, restart == model (acknowledged ops only), a post-restart write survives another restart. "
                "distinct_nontrivial = distinct (class, path, metric, overwrite) cells resp. distinct (fault plan, faulted op kind, position, policy)",
        "legs": [
            {"name": "invalid-inputs", "argv": ["c03"], "args": {"leg": "invalid-inputs"}, "shards": 16},
            {"name": "storage-faults", "argv": ["c03"], "args": {"leg": "storage-faults"}, "shards": 16, "preload": "fsshim", "needs": ["fsshim"]},
        ],
        "assumptions": COMMON_ASSUME + ["fault realism: only EIO may leave partial data behind a failing call; short counts are followed by a separate failing call",
                                         "refusing further writes after a storage fault (breaker, degraded, poisoned WAL) is allowed and only counted"],
        "min_evaluations": 500,
        "level_text": "enumeration of invalid-input classes on every write path and seeded injection of storage faults (including faults on the "
                      "engine's own rollback and retry) into the real engine through an LD_PRELOAD shim, judged by a reference model live and "
                      "after restart; fault enumeration, not proof",
        "level_note": "trusted: the shim's fault injection; faults in syscalls the shim does not wrap are out of reach (none used by persistence.rs)",
        "technique": "runtime monitoring: fault injection at syscall level + model differential live and after restart",
    },
    "C13": {
        "level": "fault_enumeration",
        "rule": "one case = data directory produced by a seeded history (snapshots every 3-9 mutations or manual, rotation at 96-600 B, WAL "
                "compaction, clean restarts) and shut down cleanly; then EVERY single fault of the enumeration: per file (MANIFEST, every listed "
                "WAL segment, every snapshot) deletion; bit flips at each structural offset (WAL magic, every frame's 4 length bytes / first, "
                "middle and last payload byte / 4 CRC bytes; snapshot magic, size, version, timestamp, doc_count, dimension, payload tail, CRC "
                "and seeded payload bytes; every (3rd in quick) byte of MANIFEST) and seeded offsets; truncation to every frame boundary -1/0/+1, "
                "to 0, to the header and seeded lengths. Strict recovery (in a subprocess when a corrupted size field could abort on allocation; "
                "an abort is a refusal) must fail or return exactly the pre-damage collection; the property's exclusion is applied by effect "
                "(only a suffix of the NEWEST listed segment lost, judged with an independent reference replay). Leg server-start-up: the "
                "directory is produced by the REAL kyrodb_server (gRPC history with CreateSnapshot, forced drains and graceful restarts, clean "
                "SIGTERM shutdown); every deletion plus a seeded sample (quick 10, thorough 40 per directory) of the same fault enumeration is "
                "applied to a copy and the real server is started on it: it must refuse to start or serve exactly the pre-damage census. "
                "distinct_nontrivial = distinct (case, fault) pairs",
        "legs": [{"name": "single-faults", "argv": ["c13"], "shards": 16},
                 {"name": "server-start-up", "argv": ["c13", "--leg", "server"], "bin_args": {"server": "server"}, "shards": 16, "timeout_q": 1800}],
        "assumptions": COMMON_ASSUME + ["the harness's reference replay of the undamaged directory must equal the model (else the case is inconclusive)"],
        "min_evaluations": 1000,
        "level_text": "enumeration of single storage faults (structural bit flips, truncations, deletions) on directories from seeded histories, each "
                      "decided by the real strict recovery against the pre-damage model; fault enumeration over sampled directories, not proof",
        "level_note": "multi-fault damage and faults at non-enumerated offsets are out of reach; the server's start-up policy (MANIFEST deleted => it used to start empty) is judged in leg server-start-up",
        "technique": "runtime monitoring: single-fault injection on persisted state + recovery oracle",
    },
    "C12": {
        "level": "fault_enumeration",
        "rule": "three legs. histories: seeded history (writes, snapshots every 2-7 mutations or manual, rotation at 96-256 B, compaction, "
                "clean restarts) with 2-5 backups (full, then mostly incrementals on the newest backup) at quiescent points; EVERY backup is "
                "restored with RestoreManager into an empty directory, strictly recovered and compared bit-exactly with the model at backup "
                "time; point-in-time restores (thorough: at every backup timestamp with 1.1 s spacing; quick: 'now'). corruption: for one "
                "backup per case, every file of its chain (archives and metadata JSON): bit flips at every structural offset (member count, "
                "every name-length / name / data-length byte, first/middle/last payload byte of every member, every (3rd) metadata byte), "
                "truncation to every member boundary -1/0/+1, to 0, last byte, seeded offsets; restored with allow_clear into a NON-EMPTY target "
                "holding another database: outcome must be 'rejected with the target byte-identical' or 'accepted with exactly the backup-time "
                "collection'; restore without confirmation must leave a non-empty target untouched. retention: synthetic timelines (1-5 fulls "
                "with chains and branches of incrementals, ages from minutes to years) x seeded policies: after prune_backups every retained "
                "backup still has all its ancestors. distinct_nontrivial = distinct histories with >= 2 backups, distinct (case, file, mutation) "
                "corruptions, distinct timelines where something was pruned and something retained",
        "legs": [
            {"name": "histories", "argv": ["c12"], "args": {"leg": "histories"}, "shards": 16},
            {"name": "corruption", "argv": ["c12"], "args": {"leg": "corruption"}, "shards": 16},
            {"name": "retention", "argv": ["c12"], "args": {"leg": "retention"}, "shards": 16},
        ],
        "assumptions": COMMON_ASSUME + ["BACKUP_ALLOW_CLEAR is unset; confirmation goes through ClearDirectoryOptions", "backups are taken on a quiescent engine (the property's own condition)",
                                         "a corruption that provably changes nothing (e.g. description text) may be accepted"],
        "min_evaluations": 500,
        "level_text": "restore-and-recover differential of every backup of seeded histories against the backup-time model, plus enumeration of "
                      "single-byte corruptions/truncations of archives and metadata and synthetic retention timelines, all on the real "
                      "BackupManager/RestoreManager; fault enumeration over sampled backup sets, not proof",
        "level_note": "S3 transport is not driven; PITR between timestamps needs wall-clock spacing and is thorough-only",
        "technique": "runtime monitoring: restore differential + single-fault injection on backup artefacts + closure invariant on retention",
    },
    "C05": {
        "level": "exploration",
        "rule": "one case = 2-3 client threads each running a seeded program of 2-4 operations (insert/overwrite, delete, query, query_with_source, "
                "get_document_with_metadata, bulk_query, get_embedding_cache_aware) on 1-2 shared ids of a TieredEngine (tiny recent-write-tier "
                "limits and document caches, optional persistence), after a sequential prefix that populates caches and mirrors; every write "
                "carries a unique id encoded in the vector AND in the metadata; call/return events are stamped from one atomic counter at the "
                "API boundary; schedules: directed single pause before a seeded lock event of one thread, double pauses, or seeded jitter at "
                "every lock acquisition (lock events come from the instrumented lock_api). Oracles: no torn read (vector and metadata of one "
                "read from the same write), no read of an unwritten value, and a Wing-Gong linearizability search of every key's sub-history "
                "against a register-with-delete model (failed/unfinished ops stay open). Leg server-reads: the REAL kyrodb_server, one writer "
                "connection per id (250 / 600 inserts-overwrites-deletes with unique write ids in vector and metadata), 2-4 reader connections "
                "issuing Query and BulkQuery with embeddings; every read must pair vector and metadata of one write and must observe the state "
                "left by the last write completed before it began or by a write overlapping it (client clock). distinct_nontrivial = distinct "
                "(programs, observed per-key outcomes) / server cases",
        "legs": [{"name": "linearizability", "argv": ["c05"], "shards": 16},
                 {"name": "server-reads", "argv": ["c05", "--leg", "server"], "bin_args": {"server": "server"}, "shards": 8, "timeout_q": 1800}],
        "assumptions": COMMON_ASSUME + ["delete/insert boolean results are not part of the sequential specification", "interleavings finer than lock events and exhaustive preemption-bounded enumeration are out of reach",
                                         "schedules are steered by pauses and jitter on free-running OS threads and are not exactly replayable; the recorded history is the witness"],
        "min_evaluations": 1000,
        "level_text": "linearizability checking of recorded concurrent histories of the real engine under directed delay injection at lock events; "
                      "tens of thousands of short histories per run; exploration of schedules, not exhaustive",
        "level_note": "trusted: the Wing-Gong checker and the monotonic event counter; the server-reads leg uses one writer per id (program order = version order) and interval-overlap reasoning instead of the full checker",
        "technique": "runtime monitoring: recorded call/return histories + per-key linearizability checker + delay injection at lock events",
    },
    "C08": {
        "level": "exploration",
        "rule": "pair-sweep leg: catalogue of 26 API operations (insert, overwrite, delete, batch delete by ids / compilable filter / non-compilable "
                "filter, metadata update, point / miss / bulk / with-metadata / cache-aware reads, exists, sync / ef / batch / timed search, forced "
                "and threshold drain, bulk load, manual snapshot, stats, lifecycle stats, predictor swap, insert at the recent-write-tier hard "
                "limit (emergency drain), insert into a full index (tombstone compaction)); for EVERY ordered pair (X,Y) X is parked before its "
                "i-th lock event (quick: first/middle/last + 5 seeded; thorough: every i) while Y runs to completion or blocks, then X resumes; "
                "plus a seeded double-pause and selected triples per pair. soak leg: 8 free-running threads x 120 random catalogue operations "
                "with seeded jitter at lock acquisitions; every 6th round runs with 2 query / worker permits and a 1 ms cold stage while the "
                "engine's own blocking-pool search workers are delayed 0.2-3 ms at 25 % of their lock acquisitions (worker-permit saturation "
                "exits of the timed search; exits taken are counted in the evidence). A violation is ONLY a wait-for cycle reported by parking_lot's own deadlock detector "
                "(with the blocked threads' engine frames) or a certain one-thread self-deadlock seen by the lock monitor (a blocking acquisition of a "
                "non-reentrant lock the same thread holds in a conflicting mode); lock-order-graph cycles and recursive reads are harvested as candidates into the "
                "evidence and never raise an alarm; a watchdog expiry without a reported cycle is inconclusive. distinct_nontrivial = distinct "
                "(X, Y[, Z], pause point(s)) schedules",
        "legs": [
            {"name": "pair-sweep", "argv": ["c08"], "args": {"leg": "pair-sweep"}, "shards": 16, "timeout_q": 1800},
            {"name": "soak", "argv": ["c08"], "args": {"leg": "soak"}, "shards": 4, "parallel": 4},
        ],
        "assumptions": COMMON_ASSUME + ["deadlocks that need more than 3 threads or waits on non-lock primitives are out of reach", "exhaustive enumeration up to a preemption bound is out of reach for this family"],
        "min_evaluations": 1000,
        "level_text": "directed delay injection at every lock event of every ordered operation pair on the real engine with the real lock "
                      "implementation's wait-for-cycle detector as ground truth; exploration, not exhaustive model checking",
        "level_note": "trusted: parking_lot's deadlock_detection feature; lock events are observed through a vendored lock_api with ~60 added lines",
        "technique": "runtime monitoring: lock-event hooks, lock-order graph, directed pause sweeps, real deadlock detector",
    },
    "C09": {
        "level": "exploration",
        "rule": "one case = HnswBackend with persistence (capacity {4,6,8,large} forcing tombstone compaction, snapshot interval {1,2,3,large} so "
                "writers trigger automatic snapshots, rotation at {64,128,256 B,large}, fsync Always in 1/4 of the cases) + 1-2 writer threads "
                "(3-8 unique-valued puts / deletes / metadata merges / batch deletes on 2-5 keys) + a thread issuing 1-4 manual snapshots, under "
                "single/double directed pauses at lock events or seeded jitter. After all calls returned: S at quiescence, every key's live "
                "value is a value some writer issued for it with matching metadata, an acknowledged put without any delete is present, log "
                "checker L on a copy of the directory, strict recovery of that copy equals the final live collection bit-exactly, S after "
                "recovery. distinct_nontrivial = distinct (writer programs, configuration, schedule)",
        "legs": [{"name": "snapshot-vs-writers", "argv": ["c09"], "shards": 16}],
        "assumptions": COMMON_ASSUME + ["schedules are steered, not enumerated; not exactly replayable"],
        "min_evaluations": 1000,
        "level_text": "end-state differential (live vs recovered vs acknowledged set) of the real backend under directed delay injection between "
                      "writers, automatic and manual snapshots, rotation and both compactions; exploration of schedules",
        "level_note": "trusted: the crate's own readers used by L; interleavings finer than lock events are out of reach",
        "technique": "runtime monitoring: end-state differential + invariant checkers under delay injection at lock events",
    },
    "C10": {
        "level": "exploration",
        "rule": "histories leg: one history = real kyrodb_server (auth on, 2-3 tenants) driven over gRPC with 60-140 RPCs drawn from Insert, BulkInsert, "
                "BulkLoadHnsw, Query, BulkQuery, Search, BulkSearch, UpdateMetadata (merge/replace), Delete, BatchDelete by ids and by filter, FlushHotTier, "
                "with colliding local ids (1..6), identical vectors and queries across tenants (to provoke cache reuse), spoofed reserved keys in metadata, "
                "namespaces, and generated AND/OR/NOT/IN/range filters over user and reserved keys; every response to tenant T is judged against T's own "
                "reference model alone; /usage, unauthenticated/unknown/disabled keys are probed; at the end every tenant's census equals its model. "
                "two-world leg: tenant A's identical workload is run alone and interleaved with tenant B writing identical/nearby vectors, A's observable "
                "responses are compared. provisioning leg: 1-5 tenants, some holding two enabled keys (rotation overlap), 2-4 rounds of writes with "
                "colliding local ids through either key, a census of every tenant through every one of its keys, then 0-2 newly provisioned "
                "tenants and a graceful or SIGKILL restart on the same data directory: a new tenant starts empty, both keys see the same "
                "data, nobody's documents change. The unauthenticated probes include missing / unknown / disabled / prefix-only / empty / "
                "truncated / valid-plus-trailing-bytes / case-changed keys. distinct_nontrivial = distinct histories",
        "legs": [{"name": "histories", "argv": ["c10", "--leg", "histories"], "bin_args": {"server": "server"}, "shards": 16, "timeout_q": 1800},
                 {"name": "two-world", "argv": ["c10", "--leg", "two-world"], "bin_args": {"server": "server"}, "shards": 8, "timeout_q": 1800},
                 {"name": "provisioning", "argv": ["c10", "--leg", "provisioning"], "bin_args": {"server": "server"}, "shards": 16, "timeout_q": 1800}],
        "assumptions": COMMON_ASSUME + ["process-wide aggregate health and metrics counters are outside the property (as stated)",
                                         "timing side channels are not observed"],
        "min_evaluations": 16,
        "level_text": "black-box runtime monitoring of the real server binary over gRPC: per-tenant reference models (non-interference oracle) and a "
                      "two-world differential; exploration",
        "level_note": "trusted: the tonic client generated from the repository's proto and the per-tenant model",
        "technique": "runtime monitoring: per-tenant reference-model monitor + two-world non-interference differential on the real binary",
    },
    "C15": {
        "level": "exploration",
        "rule": "one case = real kyrodb_server (auth on, metric cosine|euclidean|innerproduct, snapshot interval 7|1000, rotation 2 KiB|1 MiB) and 40-90 "
                "generated requests: Insert x 12 vector classes (valid, empty, 4096/4097 dims, dim-1, dim+1, zeros, NaN, +inf, -inf, f32::MAX, subnormal) x "
                "ids {live, 0, 2^32, 2^64-1}; BulkInsert/BulkLoadHnsw streams mixing acceptable and refusable items on live ids; Search/BulkSearch with k in "
                "{0,1,10,1000,1001,2^32-1}, ef in {0,1,10000,10001,2^32-1}, 11 filter classes (empty oneof, NOT without operand, empty AND/OR, NOT nesting "
                "depth 50/99/100/101/200, 100 000-value IN list), 10 000-byte namespaces; Query/BulkQuery with 0/3/10 000/10 001 ids; UpdateMetadata with "
                "reserved keys and 5 MiB values; Delete; BatchDelete without criteria / 10 000 / 10 001 ids / out-of-range id / pathological filters; "
                "CreateSnapshot with a foreign path; a 10 001-item stream in 10 % of the cases. Oracle: an answer arrives within 60 s, the process "
                "stays alive, Health answers every 8 steps, what the validators must refuse is refused (non-finite on every write path), stream "
                "counts add up, and the census (ids, vectors bit-exact, metadata) equals the model live, after a graceful restart and after a SIGKILL "
                "restart. distinct_nontrivial = distinct cases",
        "legs": [{"name": "request-fuzz", "argv": ["c15"], "bin_args": {"server": "server"}, "shards": 16, "timeout_q": 1800}],
        "assumptions": COMMON_ASSUME + ["vector classes that the validators of the configured metric do not refuse (zeros, f32::MAX, subnormal under "
                                         "euclidean) may be accepted; they are then tracked by the model and must survive like any document",
                                         "malformed protobuf framing below the tonic client (raw HTTP/2 garbage) is not generated"],
        "min_evaluations": 16,
        "level_text": "black-box runtime monitoring of the real server binary: structured boundary-value request generator with a liveness/answer monitor "
                      "and a census-vs-model oracle across graceful and SIGKILL restarts; exploration",
        "level_note": "trusted: the tonic client generated from the repository's proto",
        "technique": "runtime monitoring: structured request fuzzing with answer/liveness monitor + census differential on the real binary",
    },
    "C17": {
        "level": "exploration",
        "rule": "the same seeded workload (harness/src/c17.rs) is executed under four memory-safety oracles, one per build: (native) dev-profile build "
                "with debug assertions => std ub_checks on get_unchecked/from_raw_parts/ptr::add preconditions + overflow checks, kernels on slices that "
                "border PROT_NONE guard pages; (asan) nightly -Zsanitizer=address; (miri) the Miri interpreter with all x86 kernel families enabled "
                "(UB, uninitialised reads, data races); (valgrind, thorough) memcheck on the release build. Legs: kernels = every family (scalar, SSE2, "
                "AVX2, AVX-512) x every length 0..=130 x 16 (Miri 3) element offsets, slices ending exactly at the end of their allocation, values "
                "compared with an f64 reference; index = HnswVectorIndex sequences over dimension 1..130 (biased to SIMD-width neighbours), M 4..64, "
                "capacity 1..4096, ef_construction 1..400, three metrics, duplicate vectors and ids, id 0 / 2^64-1, single and batch insertion below "
                "and above the parallel threshold, to capacity and beyond, k 1..10 001, ef 1..usize::MAX, cancellation flag preset or flipped by "
                "another thread while 2-4 readers share the index; backend = persistence-free HnswBackend with one writer (insert/delete/batch "
                "delete) and concurrent readers. In the index/backend legs the runtime kernel dispatch is forced per shard (hook H1) so that every "
                "family carries the index traffic. distinct_nontrivial = distinct (tool, dimension, M, capacity, size) shapes and (family, length) pairs",
        "legs": [
            {"name": "kernels-native", "bin": "sanwrap", "argv": ["c17", "--leg", "kernels", "--mode", "native"], "needs": ["vh"], "shards": 4},
            {"name": "index-native", "bin": "sanwrap", "argv": ["c17", "--leg", "index", "--mode", "native"], "needs": ["vh"], "shards": 16, "timeout_q": 1800},
            {"name": "backend-native", "bin": "sanwrap", "argv": ["c17", "--leg", "backend", "--mode", "native"], "needs": ["vh"], "shards": 16},
            {"name": "kernels-asan", "bin": "sanwrap", "argv": ["c17", "--leg", "kernels", "--mode", "asan"], "needs": ["vh-asan"], "shards": 4},
            {"name": "index-asan", "bin": "sanwrap", "argv": ["c17", "--leg", "index", "--mode", "asan"], "needs": ["vh-asan"], "shards": 16, "timeout_q": 1800},
            {"name": "backend-asan", "bin": "sanwrap", "argv": ["c17", "--leg", "backend", "--mode", "asan"], "needs": ["vh-asan"], "shards": 16},
            {"name": "kernels-miri", "bin": "sanwrap", "argv": ["c17", "--leg", "kernels", "--mode", "miri"], "needs": ["vh-miri"], "shards": 16, "timeout_q": 1800},
            {"name": "index-miri", "bin": "sanwrap", "argv": ["c17", "--leg", "index", "--mode", "miri"], "needs": ["vh-miri"], "shards": 16, "timeout_q": 2400, "timeout_t": 14400},
            {"name": "backend-miri", "bin": "sanwrap", "argv": ["c17", "--leg", "backend", "--mode", "miri"], "needs": ["vh-miri"], "shards": 16, "timeout_q": 2400, "timeout_t": 14400},
            {"name": "kernels-valgrind", "bin": "sanwrap", "argv": ["c17", "--leg", "kernels", "--mode", "valgrind"], "needs": ["vh-release"], "shards": 8, "thorough_only": True},
            {"name": "index-valgrind", "bin": "sanwrap", "argv": ["c17", "--leg", "index", "--mode", "valgrind"], "needs": ["vh-release"], "shards": 16, "thorough_only": True},
            {"name": "backend-valgrind", "bin": "sanwrap", "argv": ["c17", "--leg", "backend", "--mode", "valgrind"], "needs": ["vh-release"], "shards": 16, "thorough_only": True},
        ],
        "assumptions": ["the harness links the real kyrodb-engine built from /repo's working tree with feature verif-hooks",
                        "a clean sanitizer run is not memory safety: accesses inside one allocation (the packed level-0 Vec) are invisible to ASan/"
                        "memcheck and are covered only by ub_checks (index < len) and Miri (uninitialised capacity)",
                        "Miri runs a scaled-down workload (<= 24 nodes, capacity <= 130); valgrind 3.19 does not emulate AVX-512",
                        "verdicts hold only for the executions observed in this run"],
        "min_evaluations": 64,
        "level_text": "sanitizers: the same seeded index/kernel workload under std ub_checks + guard pages, AddressSanitizer, Miri and valgrind "
                      "memcheck with each SIMD kernel family forced in turn; exploration",
        "level_note": "trusted: the tools themselves; first engine frame of a report is used as the finding signature",
        "technique": "sanitizers and UB interpreter: Miri, AddressSanitizer, std ub_checks/debug assertions, valgrind memcheck, guard pages",
    },
    "C14": {
        "level": "exploration",
        "rule": "one case = real kyrodb_server (production profile on loopback, auth on, tenant 'alpha' with max_vectors in 2..8, a second tenant using "
                "the same local ids, fsync full|data_only, snapshot interval 3..1000, rotation 512 B..1 MiB) driven over gRPC: (a) 25-60 sequential "
                "write RPCs near the limit (insert new/overwrite, delete present/absent, BatchDelete with duplicates/absent ids/by filter, BulkInsert "
                "and BulkLoadHnsw with duplicate ids inside the batch and rejected items, wrong-dimension and NaN writes); every single Insert of a "
                "new id is an admission probe (must succeed iff live < limit); (b) 150 repetitions of one concurrent pair on one id from two "
                "connections with randomised arrival order (insert||delete, overwrite||delete, bulk||delete, insert||insert); (c) a graceful and a "
                "SIGKILL restart at quiescent points. At quiescent points (every 6 repetitions, phase ends, after restarts): BulkQuery census == "
                "model and black-box count read-out: fresh probe ids are inserted until RESOURCE_EXHAUSTED, accepted must equal limit - live. "
                "distinct_nontrivial = distinct cases",
        "legs": [{"name": "quota", "argv": ["c14"], "bin_args": {"server": "server"}, "shards": 16, "timeout_q": 1800}],
        "assumptions": COMMON_ASSUME + ["quota refusals of multi-document batches that would cross the limit are not judged", "free-running concurrency inside the server (no controlled schedules in a separate process); repetition with randomised arrival order",
                                         "hook H2 (/verif/quota) was not needed: the black-box probe reads the count exactly"],
        "min_evaluations": 8,
        "level_text": "black-box runtime monitoring of the real server binary: exact read-out of the quota counter by probing the admission boundary, "
                      "compared with a census at quiescent points of sequential, concurrent and restart workloads; exploration",
        "level_note": "trusted: the tonic client generated from the repository's proto; concurrency windows are hit by repetition, not by control",
        "technique": "runtime monitoring: black-box boundary probing + census differential on the real binary",
    },
}
