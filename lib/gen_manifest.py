#!/usr/bin/env python3
"""Regenerate /verif/MANIFEST.json from lib/checks.py (single source of truth)."""
import json, os, sys
sys.path.insert(0, os.path.dirname(os.path.abspath(__file__)))
import checks as CH

VERIF = os.path.dirname(os.path.dirname(os.path.abspath(__file__)))
props = [json.loads(l) for l in open(os.path.join(VERIF, "properties.jsonl"))]
ids = [p["id"] for p in props]

checks = []
for pid in ids:
    if pid not in CH.CHECKS:
        continue
    c = CH.CHECKS[pid]
    checks.append({
        "property_id": pid,
        "quick_cmd": "./check %s quick" % pid,
        "thorough_cmd": "./check %s thorough" % pid,
        "evidence_file": "/verif/evidence/%s.json" % pid,
        "replay_cmd_template": "./check %s --replay {path}" % pid,
        "engine": "vh",
        "level_claimed": {"category": c["level"], "text": c["level_text"], "design_ref": c.get("design_ref", "DESIGN.md section 4 (%s)" % pid)},
        "level_note": c["level_note"],
        "technique": c["technique"],
    })
na = []
for pid in ids:
    if pid not in CH.CHECKS:
        na.append({"property_id": pid, "reason": CH.NOT_APPLICABLE.get(pid, "check not built yet in this session; nothing is claimed for this property")})

manifest = {
    "version": 1,
    "setup_cmd": "./check --setup",
    "hooks": {
        "guard": "cargo feature `verif-hooks` of kyrodb-engine (off by default)",
        "enable": "the harness crate depends on kyrodb-engine with features=[\"verif-hooks\"]; the server is built with --features verif-hooks",
        "baseline_off_cmd": "cd /repo && cargo nextest run --workspace --no-fail-fast --test-threads 8 --offline || cargo test --workspace --no-fail-fast --offline",
        "source_commits": CH.HOOK_COMMITS,
        "add_only": True,
    },
    "engines": [
        {"name": "vh", "path": "/verif/harness", "serves_properties": sorted(CH.CHECKS.keys()),
         "kind_free_text": "Rust harness binary linking the real kyrodb-engine (path dependency on /repo/engine) with a lock-event-instrumented copy of lock_api; one subcommand per monitor; orchestrated by /verif/check (python3, stdlib)"},
    ],
    "checks": checks,
    "not_applicable": na,
    "notes": "Technique family: runtime monitoring and sanitizers. See DESIGN.md. Known findings: /verif/known_findings.json.",
}
json.dump(manifest, open(os.path.join(VERIF, "MANIFEST.json"), "w"), indent=1)
print("wrote MANIFEST.json with %d checks, %d not_applicable" % (len(checks), len(na)))
