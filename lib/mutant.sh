#!/bin/bash
# lib/mutant.sh import <ID>            : copy /tmp/mut/<ID>/out into /verif/seeded/<ID>/m1, m2 ...
# lib/mutant.sh run <ID> <m> [tier] [check-id] : apply seeded/<ID>/<m>/patch.diff to /repo, run the check, revert
set -u
cmd=$1; id=$2
V=/verif
if [ "$cmd" = import ]; then
  src=/tmp/mut/$id/out
  n=0
  for p in $src/patch*.diff; do
    [ -s "$p" ] || continue
    n=$((n+1)); k=$(basename $p .diff | sed 's/patch//'); [ -z "$k" ] && k=$n
    d=$V/seeded/$id/m$k; mkdir -p $d
    cp $p $d/patch.diff
    for f in $src/demo$k.* $src/demo${k}_*; do [ -e "$f" ] && cp $f $d/ ; done
    cp $src/demonstration.md $d/demonstration.md 2>/dev/null
    python3 - "$src/meta.json" "$k" "$d/meta.json" <<'PY'
import json,sys
try:
    m=json.load(open(sys.argv[1]))
    ps=m.get('patches',[])
    me=[p for p in ps if p.get('file','').endswith('patch%s.diff'%sys.argv[2])]
    out={'property':m.get('property'),'origin':'fresh sub-agent given only the property text and a scratch worktree', **(me[0] if me else {})}
except Exception as e:
    out={'error':str(e)}
json.dump(out,open(sys.argv[3],'w'),indent=1)
PY
  done
  echo "imported $n patches for $id"; exit 0
fi
if [ "$cmd" = run ]; then
  m=$3; tier=${4:-quick}; chk=${5:-$id}
  d=$V/seeded/$id/$m
  # exclusive use of /repo's working tree while the seeded change is applied
  exec 9>/tmp/verif-repo.lock; flock 9; export VERIF_LOCK_HELD=1
  if [ -n "$(git -C /repo status --porcelain)" ]; then echo "/repo not clean"; exit 2; fi
  if ! git -C /repo apply $d/patch.diff 2>/dev/null; then
    if ! git -C /repo apply --3way $d/patch.diff; then echo "patch does not apply"; git -C /repo checkout -- . ; git -C /repo reset -q; exit 2; fi
    git -C /repo reset -q
  fi
  cd $V
  log=$d/result.$chk.$tier.txt
  ( time ./check $chk $tier ) > $log 2>&1
  rc=$?
  grep -E "^VIOLATION|^KNOWN-FINDING|^\[check\] C|^INCONCLUSIVE|HARNESS" $log | cut -c1-300 | head -8
  echo "exit=$(grep -c '^VIOLATION' $log) violations; log $log"
  git -C /repo checkout -- . ; git -C /repo reset -q
  rm -rf $V/replays/$chk
  exit 0
fi
