#!/bin/bash
# lib/regress.sh [ID...] : re-run every seeded change against the current quick tier; writes seeded/REGRESSION.tsv
cd /verif
ids="$@"; [ -z "$ids" ] && ids=$(ls seeded | grep '^C')
out=seeded/REGRESSION.tsv
[ -f $out ] || echo -e "change\tcheck\tviolations\tverdict\tfirst_sig" > $out
for id in $ids; do
  for d in seeded/$id/m*; do
    m=$(basename $d)
    lib/mutant.sh run $id $m quick > /tmp/regress.$id.$m.log 2>&1
    log=$d/result.$id.quick.txt
    n=$(grep -c '^VIOLATION' $log 2>/dev/null || echo 0)
    sig=$(grep -m1 'sig=' $log | sed 's/ ::.*//; s/^ *sig=//' | cut -c1-90)
    v=$([ "$n" -gt 0 ] && echo caught || echo MISSED)
    # replace an older line for this change
    grep -v "^$id/$m	" $out > $out.tmp; mv $out.tmp $out
    echo -e "$id/$m\t$id\t$n\t$v\t$sig" >> $out
    echo "$id/$m $v ($n) $sig"
  done
done
