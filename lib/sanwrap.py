#!/usr/bin/env python3
"""Run one shard of the C17 workload (vh c17 ...) under one memory-safety tool and turn what the
tool says into the harness result format.

  sanwrap.py c17 --leg kernels|index|backend --mode native|asan|miri|valgrind [vh args...]

native   : dev-profile harness (debug assertions => std `ub_checks` on get_unchecked /
           from_raw_parts / ptr::add preconditions, overflow checks), guard pages behind kernels
asan     : nightly -Zsanitizer=address build of the same harness
miri     : the same harness interpreted by Miri (UB, data races, uninitialised reads), all kernel
           families enabled through target features
valgrind : memcheck on the release harness (valgrind 3.19 hides AVX-512 -> AVX2 dispatch path)

Verdicts are three-valued: a tool report / fatal signal with the workload still running is a
violation (sig = tool|kind|first in-repo frame); an unsupported operation, OOM kill or watchdog
is inconclusive; anything else that prevents a result is a harness error (no result file)."""
import json
import os
import re
import signal
import subprocess
import sys
import time

VERIF = os.path.dirname(os.path.dirname(os.path.abspath(__file__)))
TARGET = os.path.join(VERIF, "target")
NIGHTLY = os.path.expanduser("~/.rustup/toolchains/nightly-x86_64-unknown-linux-gnu")
MIRI_INFO = os.path.join(TARGET, "miri", "miri", "x86_64-unknown-linux-gnu", "debug", "vh")
FAMS = ["scalar", "sse2", "avx2", "avx512"]


def arg(argv, name, default=None):
    if name in argv:
        i = argv.index(name)
        if i + 1 < len(argv):
            return argv[i + 1]
    return default


def first_repo_frame(text):
    """first stack frame that names engine code (file:line stripped of columns, or symbol)"""
    m = re.search(r"(/repo/engine/src/[A-Za-z0-9_/]+\.rs):(\d+)", text)
    if m:
        return "%s:%s" % (m.group(1).replace("/repo/engine/src/", ""), m.group(2))
    m = re.search(r"(kyrodb_engine::[A-Za-z0-9_:<>]+)", text)
    if m:
        return m.group(1)[:80]
    return "no-engine-frame"


def classify(mode, rc, err):
    """-> ("ok"|"violation"|"inconclusive"|"error", sig, detail)"""
    if mode == "miri":
        m = re.search(r"^error: (Undefined Behavior|Data race detected|unsupported operation|memory leaked|deadlock|abnormal termination|the main thread terminated)[^\n]*", err, re.M)
        if m:
            line = m.group(0)
            tail = err[m.start():m.start() + 6000]
            if "unsupported operation" in line:
                return "inconclusive", None, "miri: " + line[:300]
            if "deadlock" in line or "main thread terminated" in line or "memory leaked" in line:
                return "inconclusive", None, "miri: " + line[:300]
            kind = ": ".join(line[7:].split(": ")[:2])
            kind = re.sub(r"0x[0-9a-f]+|alloc\d+|\d+", "N", kind.split(" between ")[0].split(", ")[0])[:80]
            return "violation", "miri|%s|%s" % (kind, first_repo_frame(tail)), tail[:3000]
    if mode == "asan":
        m = re.search(r"ERROR: AddressSanitizer: ([a-zA-Z0-9\-_]+)", err)
        if m:
            tail = err[m.start():m.start() + 6000]
            return "violation", "asan|%s|%s" % (m.group(1), first_repo_frame(tail)), tail[:3000]
    if mode == "valgrind":
        m = re.search(r"==\d+== (Invalid (read|write|free)[^\n]*|Use of uninitialised[^\n]*|Conditional jump[^\n]*|Mismatched free[^\n]*|Source and destination overlap[^\n]*|Process terminating with default action of signal \d+ \((SIGSEGV|SIGBUS)\)[^\n]*)", err)
        if m:
            tail = err[m.start():m.start() + 6000]
            kind = re.sub(r"\d+", "N", m.group(1))[:60]
            return "violation", "memcheck|%s|%s" % (kind, first_repo_frame(tail)), tail[:3000]
    # std ub_checks and debug assertions (any mode)
    m = re.search(r"unsafe precondition\(s\) violated[^\n]*", err)
    if m:
        return "violation", "ub_checks|%s" % re.sub(r"\d+", "N", m.group(0))[:100], err[max(0, m.start() - 500):m.start() + 2500]
    m = re.search(r"\[panic\] panicked at (/repo/engine/src/[a-z_]+\.rs):(\d+)[^\n]*\n?([^\n]*)", err)
    if m and os.path.basename(m.group(1)) in ("ann_backend.rs", "simd.rs", "hnsw_index.rs"):
        return "violation", "panic|%s:%s" % (os.path.basename(m.group(1)), m.group(2)), err[m.start():m.start() + 1500]
    if rc is not None and rc < 0:
        signame = signal.Signals(-rc).name if -rc in [s.value for s in signal.Signals] else str(-rc)
        if signame in ("SIGSEGV", "SIGBUS", "SIGILL", "SIGABRT", "SIGFPE"):
            return "violation", "signal|%s" % signame, "the workload process died with %s\n%s" % (signame, err[-2500:])
        if signame == "SIGKILL":
            return "inconclusive", None, "workload killed (SIGKILL: watchdog or out of memory)"
    if rc == 0:
        return "ok", None, ""
    return "error", None, err[-3000:]


def main():
    argv = sys.argv[1:]
    mode = arg(argv, "--mode", "native")
    leg = arg(argv, "--leg", "index")
    outp = arg(argv, "--out")
    tier = arg(argv, "--tier", "quick")
    seed = arg(argv, "--seed", "1")
    shard = arg(argv, "--shard", "0/1")
    replay = arg(argv, "--replay")
    si, sn = [int(x) for x in shard.split("/")]
    scale = {"native": "native", "asan": "asan", "miri": "miri", "valgrind": "valgrind"}[mode]
    CASES = {("native", "quick"): 512, ("native", "thorough"): 4096, ("asan", "quick"): 256, ("asan", "thorough"): 2048,
             ("miri", "quick"): 16, ("miri", "thorough"): 256, ("valgrind", "quick"): 32, ("valgrind", "thorough"): 512}
    rj = None
    if replay:
        with open(replay) as f:
            rj = json.load(f)
        tier = rj.get("tier", tier)
        seed = str(rj.get("seed", seed))
    fams = FAMS[:3] if mode == "valgrind" else FAMS
    fam = fams[si % len(fams)]
    cases = CASES[(mode, tier)]
    pass_args = ["c17", "--leg", leg, "--scale", scale, "--cases", str(cases), "--seed", seed, "--tier", tier,
                 "--shard", shard, "--out", outp]
    if rj:
        rp = rj.get("replay", {})
        if rp.get("case") is not None:
            pass_args += ["--case", str(rp["case"])]
        fam = rp.get("forced_kernel", fam)
        pass_args[pass_args.index("--shard") + 1] = rp.get("shard", shard)
    env = dict(os.environ)
    env["VERIF_SHOW_PANICS"] = "1"
    env["RUST_BACKTRACE"] = "1"
    if leg != "kernels":
        env["KYRODB_VERIF_FORCE_KERNEL"] = fam
    cwd = VERIF
    if mode == "native":
        cmd = [os.path.join(TARGET, "h", "debug", "vh")] + pass_args
    elif mode == "asan":
        cmd = [os.path.join(TARGET, "asan", "x86_64-unknown-linux-gnu", "debug", "vh")] + pass_args
        env["ASAN_OPTIONS"] = "halt_on_error=1:abort_on_error=0:detect_leaks=0:symbolize=1:exitcode=98"
        env["ASAN_SYMBOLIZER_PATH"] = "/usr/bin/llvm-symbolizer-14"
    elif mode == "valgrind":
        cmd = ["valgrind", "--error-exitcode=97", "--num-callers=30", "--read-var-info=no",
               os.path.join(TARGET, "h", "release", "vh")] + pass_args
    else:
        with open(MIRI_INFO) as f:
            info = json.load(f)["RunWith"]
        cwd = bytes(info["current_dir"]["Unix"]).decode()
        rargs = [a for a in info["args"] if not a.startswith("--error-format") and not a.startswith("--json")]
        cmd = [os.path.join(NIGHTLY, "bin", "miri"), "--sysroot", os.path.expanduser("~/.cache/miri")] + rargs + \
              ["-Awarnings", "-Zmiri-disable-isolation", "-Zmiri-ignore-leaks", "-Zmiri-permissive-provenance",
               "-Zmiri-seed=%s" % seed, "--"] + pass_args
        env["LD_LIBRARY_PATH"] = os.path.join(NIGHTLY, "lib")
        env["MIRI_CWD"] = cwd
        env.pop("MIRI_BE_RUSTC", None)
    if os.path.exists(outp):
        os.unlink(outp)
    t0 = time.time()
    errp = outp + ".stderr"
    with open(errp, "w") as ef:
        p = subprocess.run(cmd, cwd=cwd, env=env, stdout=subprocess.DEVNULL, stderr=ef)
    with open(errp, errors="replace") as ef:
        err = ef.read()
    cases_seen = re.findall(r"^CASE (\S+) (\S+)", err, re.M)
    last_case = cases_seen[-1][1] if cases_seen else None
    verdict, sig, detail = classify(mode, p.returncode, err)
    if verdict == "error":
        sys.stderr.write("sanwrap: %s exited %s without a classifiable report\n%s\n" % (mode, p.returncode, detail))
        sys.exit(3)
    if os.path.exists(outp) and verdict == "ok":
        with open(outp) as f:
            r = json.load(f)
    else:
        r = {"property": "C17", "leg": leg, "evaluations": max(0, len(cases_seen) - 1), "distinct_hashes": [],
             "counters": {}, "samples": [], "violations": [], "inconclusive": [], "notes": [], "wall_s": time.time() - t0}
    r["leg"] = "%s-%s" % (leg, mode)
    r.setdefault("counters", {})["cases_under_%s" % mode] = len(cases_seen)
    if leg != "kernels":
        r["counters"]["cases_%s_forced_%s" % (mode, fam)] = len(cases_seen)
    r["distinct_hashes"] = ["%s:%s" % (mode, h) for h in r.get("distinct_hashes", [])]
    if verdict == "violation":
        case = None
        if last_case is not None and last_case.isdigit():
            case = int(last_case)
        r["violations"].append({"sig": sig, "detail": "[%s, leg %s, case %s, kernel %s] %s" % (mode, leg, last_case, fam, detail),
                                "replay": {"check": "C17", "mode": mode, "leg": leg, "case": case, "case_label": last_case,
                                           "forced_kernel": fam, "shard": shard, "seed": int(seed)}})
    elif verdict == "inconclusive":
        r["inconclusive"].append("[%s, leg %s, case %s] %s" % (mode, leg, last_case, detail))
    if verdict == "ok":
        try:
            os.unlink(errp)
        except OSError:
            pass
    with open(outp, "w") as f:
        json.dump(r, f)
    sys.exit(0)


if __name__ == "__main__":
    main()
