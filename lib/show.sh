#!/bin/bash
python3 -c "
import json,sys
d=json.load(sys.stdin)
print({k:(v if k not in ('distinct_hashes','samples') else len(v)) for k,v in d.items() if k!='violations'})
for v in d['violations'][:8]: print(v['sig'], '::', v['detail'][:1200])"
